"""Symbolic value model of the rsym interpreter (DESIGN.md 3.x, engine E3).

Scalars are Python values when concrete and z3 terms when symbolic:
  integers  -> I(v, ty)  v: int | z3 Int term ; ty: Rust type name or None (untyped literal)
  booleans  -> bool | z3 Bool term
  strings   -> S(v)      v: str | z3 Int term over interned string ids (no string theory)
  floats    -> F(v)      v: float | z3 Float64 term
Compound values are immutable-by-convention Python objects that are rebuilt on update.
Containers are bounded: a Vec is (slots, n) with n possibly symbolic; a map/set is a
list of (present, key[, value]) slots. `ite` merges two values of the same shape.
"""
import math

import z3

CAP = 6  # default slot bound for containers that become symbolic (per-run override)


class Unsupported(Exception):
    pass


class BoundExceeded(Exception):
    pass


# ----------------------------------------------------------------------------
# boolean helpers with constant folding
# ----------------------------------------------------------------------------

def is_sym(x):
    return isinstance(x, z3.ExprRef)


def bnot(a):
    if isinstance(a, bool):
        return not a
    if z3.is_not(a):
        return a.arg(0)
    if z3.is_true(a):
        return False
    if z3.is_false(a):
        return True
    return z3.Not(a)


def band(*xs):
    out = []
    for a in xs:
        if isinstance(a, bool):
            if not a:
                return False
            continue
        if z3.is_false(a):
            return False
        if z3.is_true(a):
            continue
        out.append(a)
    if not out:
        return True
    if len(out) == 1:
        return out[0]
    return z3.And(*out)


def bor(*xs):
    out = []
    for a in xs:
        if isinstance(a, bool):
            if a:
                return True
            continue
        if z3.is_true(a):
            return True
        if z3.is_false(a):
            continue
        out.append(a)
    if not out:
        return False
    if len(out) == 1:
        return out[0]
    return z3.Or(*out)


def zbool(a):
    if isinstance(a, bool):
        return z3.BoolVal(a)
    return a


def simp_bool(a):
    if isinstance(a, bool):
        return a
    s = z3.simplify(a)
    if z3.is_true(s):
        return True
    if z3.is_false(s):
        return False
    return s


# ----------------------------------------------------------------------------
# scalars
# ----------------------------------------------------------------------------

INT_RANGES = {
    "u8": (0, 2**8 - 1), "u16": (0, 2**16 - 1), "u32": (0, 2**32 - 1), "u64": (0, 2**64 - 1),
    "u128": (0, 2**128 - 1), "usize": (0, 2**64 - 1),
    "i8": (-2**7, 2**7 - 1), "i16": (-2**15, 2**15 - 1), "i32": (-2**31, 2**31 - 1),
    "i64": (-2**63, 2**63 - 1), "i128": (-2**127, 2**127 - 1), "isize": (-2**63, 2**63 - 1),
}


class I:
    __slots__ = ("v", "ty", "ub")

    def __init__(self, v, ty=None, ub=None):
        if isinstance(v, bool):
            v = int(v)
        self.v = v
        self.ty = ty
        self.ub = ub      # known small upper bound (lengths), lets casts enumerate

    def z(self):
        return z3.IntVal(self.v) if isinstance(self.v, int) else self.v

    def conc(self):
        return isinstance(self.v, int)

    def __repr__(self):
        return "I(%s:%s)" % (self.v, self.ty)


STR_IDS = {}
STR_BY_ID = []


def intern(s):
    """strings are interned: a symbolic string is an Int term (an ite tree over ids of
    concrete strings), so equality is integer equality and z3's string theory is never used"""
    i = STR_IDS.get(s)
    if i is None:
        i = len(STR_BY_ID)
        STR_IDS[s] = i
        STR_BY_ID.append(s)
    return i


def s_leaves(term, limit=256):
    """[(condition, python str)] of an interned-string term: one entry per distinct string id
    that occurs as a leaf of the ite DAG (linear walk with memo), condition = (term == id)"""
    ids = set()
    seen = set()
    stack = [term]
    while stack:
        t = stack.pop()
        k = t.get_id()
        if k in seen:
            continue
        seen.add(k)
        if z3.is_int_value(t):
            ids.add(t.as_long())
        elif z3.is_app_of(t, z3.Z3_OP_ITE):
            stack.append(t.arg(1))
            stack.append(t.arg(2))
        else:
            raise Unsupported("free string term (strings must come from concrete alternatives)")
        if len(ids) > limit:
            raise Unsupported("string term with more than %d alternatives" % limit)
    ids = sorted(ids)
    if len(ids) == 1:
        return [(True, STR_BY_ID[ids[0]])]
    return [(term == i, STR_BY_ID[i]) for i in ids]


class S:
    __slots__ = ("v",)

    def __init__(self, v):
        self.v = v

    def z(self):
        return z3.IntVal(intern(self.v)) if isinstance(self.v, str) else self.v

    def leaves(self):
        return [(True, self.v)] if isinstance(self.v, str) else s_leaves(self.v)

    def conc(self):
        return isinstance(self.v, str)

    def __repr__(self):
        return "S(%r)" % (self.v,)


FP = z3.Float64()
RM = z3.RNE()


class F:
    __slots__ = ("v",)

    def __init__(self, v):
        self.v = v

    def z(self):
        return z3.FPVal(self.v, FP) if isinstance(self.v, float) else self.v

    def conc(self):
        return isinstance(self.v, float)

    def __repr__(self):
        return "F(%s)" % (self.v,)


class Unit:
    def __repr__(self):
        return "()"


UNIT = Unit()


# ----------------------------------------------------------------------------
# compound values
# ----------------------------------------------------------------------------

class St:
    """struct value"""
    __slots__ = ("name", "f")

    def __init__(self, name, f):
        self.name = name
        self.f = f

    def __repr__(self):
        return "%s%r" % (self.name, self.f)


class En:
    """enum value: tag (int | z3 Int) + payload per variant index (list or dict)"""
    __slots__ = ("name", "tag", "pl")

    def __init__(self, name, tag, pl=None):
        self.name = name
        self.tag = tag
        self.pl = pl or {}

    def __repr__(self):
        return "%s#%s%r" % (self.name, self.tag, self.pl)


class Tu:
    __slots__ = ("items",)

    def __init__(self, items):
        self.items = list(items)

    def __repr__(self):
        return "Tu%r" % (self.items,)


class Vc:
    """Vec / VecDeque / slice: slots + length (slots beyond n are junk)"""
    __slots__ = ("items", "n", "kind")

    def __init__(self, items, n=None, kind="Vec"):
        self.items = list(items)
        self.n = len(self.items) if n is None else n
        self.kind = kind

    def conc(self):
        return isinstance(self.n, int)

    def __repr__(self):
        return "%s(n=%s)%r" % (self.kind, self.n, self.items)


class Mp:
    """HashMap: slots of [present, key, value]; iteration order = slot order"""
    __slots__ = ("e", "kind")

    def __init__(self, e=None, kind="HashMap"):
        self.e = [list(x) for x in (e or [])]
        self.kind = kind

    def __repr__(self):
        return "Map%r" % (self.e,)


class HS:
    """HashSet: slots of [present, key]"""
    __slots__ = ("e",)

    def __init__(self, e=None):
        self.e = [list(x) for x in (e or [])]

    def __repr__(self):
        return "Set%r" % (self.e,)


class Seq:
    """iterator state: ordered list of (present, value)"""
    __slots__ = ("items",)

    def __init__(self, items):
        self.items = list(items)


class Rf:
    """&mut reference"""
    __slots__ = ("place",)

    def __init__(self, place):
        self.place = place

    def __repr__(self):
        return "Rf(%r)" % (self.place,)


class Clo:
    __slots__ = ("params", "body", "frame")

    def __init__(self, params, body, frame):
        self.params = params
        self.body = body
        self.frame = frame


class FnV:
    """function item / path value (user fn or builtin constructor path)"""
    __slots__ = ("path", "item", "selfty")

    def __init__(self, path, item=None, selfty=None):
        self.path = path
        self.item = item
        self.selfty = selfty


class PyFn:
    """harness-side callback passed where the Rust code expects a closure (e.g. on_rule_fired)"""
    __slots__ = ("fn",)

    def __init__(self, fn):
        self.fn = fn


class Opaque:
    """value the interpreter carries around but never inspects (e.g. Arc<dyn Fn>)"""
    __slots__ = ("what",)

    def __init__(self, what):
        self.what = what

    def __repr__(self):
        return "Opaque(%s)" % self.what


# Option / Result helpers
def none():
    return En("Option", 0, {})


def some(v):
    return En("Option", 1, {1: [v]})


def opt(cond, v):
    """Some(v) if cond else None, cond possibly symbolic"""
    if cond is True:
        return some(v)
    if cond is False:
        return none()
    return En("Option", z3.If(cond, 1, 0), {1: [v]})


def ok(v):
    return En("Result", 0, {0: [v]})


def err(v):
    return En("Result", 1, {1: [v]})


def tag_is(e, k):
    if isinstance(e.tag, int):
        return e.tag == k
    return e.tag == k


ORDERING = {"Less": 0, "Equal": 1, "Greater": 2}


def ordering(tag):
    return En("Ordering", tag, {})


# ----------------------------------------------------------------------------
# structural merge:  ite(c, a, b)
# ----------------------------------------------------------------------------

def ite(c, a, b):
    if c is True:
        return a
    if c is False:
        return b
    if a is b:
        return a
    if a is None:
        return b
    if b is None:
        return a
    ta = type(a)
    if isinstance(a, bool) or (is_sym(a) and z3.is_bool(a)):
        if isinstance(b, bool) and isinstance(a, bool) and a == b:
            return a
        return z3.If(c, zbool(a), zbool(b))
    if ta is I:
        if not isinstance(b, I):
            raise Unsupported("ite: int vs %r" % (b,))
        if a.conc() and b.conc() and a.v == b.v:
            return I(a.v, a.ty or b.ty)
        return I(z3.If(c, a.z(), b.z()), a.ty or b.ty)
    if ta is S:
        if a.conc() and b.conc() and a.v == b.v:
            return a
        return S(z3.If(c, a.z(), b.z()))
    if ta is F:
        if a.conc() and b.conc() and a.v == b.v and math.copysign(1.0, a.v) == math.copysign(1.0, b.v):
            return a            # same value AND same sign of zero (0.0 == -0.0 but they print and divide differently)
        return F(z3.If(c, a.z(), b.z()))
    if ta is Unit:
        return a
    if ta is St and a.name == "JsonText" and isinstance(b, S) and b.conc() and b.v == "":
        b = St("JsonText", {"v": none(), "empty": True})       # an empty String buffer that a file is read into
    if ta is S and isinstance(b, St) and b.name == "JsonText" and a.conc() and a.v == "":
        return ite(c, St("JsonText", {"v": none(), "empty": True}), b)
    if ta is St:
        if not isinstance(b, St) or a.name != b.name:
            raise Unsupported("ite: struct %r vs %r" % (a, b))
        return St(a.name, {k: ite(c, a.f[k], b.f.get(k)) for k in a.f})
    if ta is En:
        if not isinstance(b, En):
            raise Unsupported("ite: enum vs %r" % (b,))
        if isinstance(a.tag, int) and isinstance(b.tag, int) and a.tag == b.tag:
            tag = a.tag
        else:
            tag = z3.If(c, a.tag if is_sym(a.tag) else z3.IntVal(a.tag), b.tag if is_sym(b.tag) else z3.IntVal(b.tag))
        pl = {}
        for k in set(a.pl) | set(b.pl):
            pa, pb = a.pl.get(k), b.pl.get(k)
            if pa is None:
                pl[k] = pb
            elif pb is None:
                pl[k] = pa
            elif isinstance(pa, dict):
                pl[k] = {f: ite(c, pa[f], pb.get(f)) for f in pa}
            else:
                pl[k] = [ite(c, x, y) for x, y in zip(pa, pb)]
        return En(a.name if a.name == b.name else a.name, tag, pl)
    if ta is Tu:
        return Tu([ite(c, x, y) for x, y in zip(a.items, b.items)])
    if ta is Vc:
        if not isinstance(b, Vc):
            raise Unsupported("ite: vec vs %r" % (b,))
        m = max(len(a.items), len(b.items))
        items = []
        for i in range(m):
            x = a.items[i] if i < len(a.items) else None
            y = b.items[i] if i < len(b.items) else None
            items.append(ite(c, x, y))
        if isinstance(a.n, int) and isinstance(b.n, int) and a.n == b.n:
            n = a.n
        else:
            n = z3.If(c, I(a.n).z(), I(b.n).z())
        return Vc(items, n, a.kind)
    if ta is Mp:
        m = max(len(a.e), len(b.e))
        e = []
        for i in range(m):
            x = a.e[i] if i < len(a.e) else [False, None, None]
            y = b.e[i] if i < len(b.e) else [False, None, None]
            e.append([ite(c, x[0], y[0]), ite(c, x[1], y[1]), ite(c, x[2], y[2])])
        return Mp(e, a.kind)
    if ta is HS:
        m = max(len(a.e), len(b.e))
        e = []
        for i in range(m):
            x = a.e[i] if i < len(a.e) else [False, None]
            y = b.e[i] if i < len(b.e) else [False, None]
            e.append([ite(c, x[0], y[0]), ite(c, x[1], y[1])])
        return HS(e)
    if ta is Rf:
        if isinstance(b, Rf) and a.place.same(b.place):
            return a
        if isinstance(b, Rf) and a.place.scope is b.place.scope and a.place.var == b.place.var \
                and len(a.place.path) == len(b.place.path) and a.place.path \
                and repr(a.place.path[:-1]) == repr(b.place.path[:-1]) \
                and a.place.path[-1][0] == b.place.path[-1][0] and a.place.path[-1][0] in ("i", "k"):
            # two references into the same container: one reference with a symbolic index / key
            la, lb = a.place.path[-1], b.place.path[-1]
            merged = (la[0], ite(c, la[1], lb[1]))
            return Rf(type(a.place)(a.place.scope, a.place.var, a.place.path[:-1] + (merged,)))
        raise Unsupported("ite: merging two different &mut references")
    if ta in (Clo, FnV, Opaque, PyFn):
        return a
    if ta is Seq:
        if not isinstance(b, Seq):
            raise Unsupported("ite: iterator vs %r" % (b,))
        m = max(len(a.items), len(b.items))
        items = []
        for i in range(m):
            pa, xa = a.items[i] if i < len(a.items) else (False, None)
            pb, xb = b.items[i] if i < len(b.items) else (False, None)
            items.append((ite(c, pa, pb), ite(c, xa, xb)))
        return Seq(items)
    raise Unsupported("ite: %r" % (ta,))


# ----------------------------------------------------------------------------
# structural equality -> bool term (derive(PartialEq) semantics)
# ----------------------------------------------------------------------------

def veq(a, b):
    if isinstance(a, Rf) or isinstance(b, Rf):
        raise Unsupported("veq on reference (deref first)")
    if isinstance(a, bool) or (is_sym(a) and z3.is_bool(a)):
        if isinstance(a, bool) and isinstance(b, bool):
            return a == b
        return zbool(a) == zbool(b)
    ta = type(a)
    if ta is I:
        if a.conc() and b.conc():
            return a.v == b.v
        return a.z() == b.z()
    if ta is S:
        if a.conc() and b.conc():
            return a.v == b.v
        return a.z() == b.z()
    if ta is F:
        if a.conc() and b.conc():
            return a.v == b.v
        return z3.fpEQ(a.z(), b.z())
    if ta is Unit:
        return True
    if ta is St:
        return band(*[veq(a.f[k], b.f[k]) for k in a.f])
    if ta is Tu:
        return band(*[veq(x, y) for x, y in zip(a.items, b.items)])
    if ta is En:
        if isinstance(a.tag, int) and isinstance(b.tag, int):
            if a.tag != b.tag:
                return False
            tags = [a.tag]
            cond = True
        else:
            cond = I(a.tag).z() == I(b.tag).z()
            tags = sorted(set(a.pl) & set(b.pl))
        parts = [cond]
        for k in tags:
            pa, pb = a.pl.get(k), b.pl.get(k)
            if pa is None or pb is None:
                continue
            if isinstance(pa, dict):
                inner = band(*[veq(pa[f], pb[f]) for f in pa])
            else:
                inner = band(*[veq(x, y) for x, y in zip(pa, pb)])
            if isinstance(a.tag, int):
                parts.append(inner)
            else:
                parts.append(bor(bnot(I(a.tag).z() == k), inner))
        return band(*parts)
    if ta is Vc:
        m = max(len(a.items), len(b.items))
        parts = [veq(I(a.n), I(b.n))]
        for i in range(m):
            if i < len(a.items) and i < len(b.items):
                inb = True if (isinstance(a.n, int) and i < a.n) else (I(a.n).z() > i)
                parts.append(bor(bnot(inb), veq(a.items[i], b.items[i])))
        return band(*parts)
    raise Unsupported("veq: %r" % (ta,))
