"""Builtin container and iterator methods for rsym."""
import z3

import values as V
from values import (I, S, F, St, En, Tu, Vc, Mp, HS, Seq, Rf, Clo, FnV, Opaque, UNIT, Unsupported,
                    BoundExceeded, band, bor, bnot, ite, veq, zbool, is_sym, none, some, opt, ok, err,
                    ordering, simp_bool)
from builtins_rs import zi, EntryV
from builtins_methods import CLONE_LIKE


class ContainersMixin:
    # ------------------------------------------------------------------ Vec / VecDeque / BinaryHeap / slices
    def m_vec(self, name, rv, place, A, D, env, hint, tfh):
        ip = self.ip
        if name in CLONE_LIKE or name in ("make_contiguous",):
            if name == "into" and hint and hint[0] in ("VecDeque", "BinaryHeap", "Vec"):
                return Vc(rv.items, rv.n, hint[0])
            return rv
        if name == "len":
            return I(rv.n, "usize", len(rv.items))
        if name == "is_empty":
            return ip.eq(I(rv.n), I(0))
        if name == "chunks":
            # slice::chunks(cs): cs is enumerated over its feasible values (solver), each case with a concrete chunk size;
            # chunk i = items[i*cs .. min((i+1)*cs, n)], number of chunks = ceil(n / cs); cs == 0 panics as in std
            cs = D()
            n = rv.n if not isinstance(rv.n, int) else z3.IntVal(rv.n)
            cap = len(rv.items)
            cases = [(True, cs.v)] if cs.conc() else ip.enumerate_int(cs.z(), 0, max(cap, 1))
            res = None
            for c, v in cases:
                if v == 0:
                    ip.panic(c, "chunk size must be non-zero")
                    continue
                v = min(v, max(cap, 1))         # a chunk size beyond the capacity behaves like the capacity
                chunks = []
                for i in range((cap + v - 1) // v):
                    ln = z3.If(n - i * v >= v, v, z3.If(n - i * v > 0, n - i * v, 0))
                    chunks.append(Vc(list(rv.items[i * v:(i + 1) * v]), z3.simplify(ln), "Vec"))
                r = Vc(chunks, z3.simplify((n + v - 1) / v), "Vec")
                res = r if res is None else ite(c, r, res)
            if res is None:
                return Seq([])          # dead path (no feasible chunk size)
            return Seq(self.vec_seq(res))
        if name == "capacity":
            return I(rv.n, "usize")
        if name in ("reserve", "shrink_to_fit", "hash"):
            return UNIT
        if name in ("iter", "into_iter", "drain_all"):
            return Seq(self.vec_seq(rv))
        if name == "iter_mut":
            if place is None:
                raise Unsupported("iter_mut on temporary")
            return Seq([(self.vec_in(rv, j), Rf(place.ext(("i", I(j, "usize"))))) for j, x in enumerate(rv.items)
                        if x is not None and self.vec_in(rv, j) is not False])
        if name in ("push", "push_back"):
            pt = ip.place_type(place) if place is not None else None
            x = A([pt[1][0]] if pt and pt[1] else None)[0]
            if isinstance(x, Rf):
                x = ip.deref(x)
            ip.modify(place, lambda old: self.vec_push(ip.deref(old), x))
            return UNIT
        if name == "push_front":
            x = D()
            ip.modify(place, lambda old: self.vec_from_seq([(True, x)] + self.vec_seq(ip.deref(old)), rv.kind))
            return UNIT
        if name in ("first", "front", "peek_front"):
            if rv.kind == "BinaryHeap":
                raise Unsupported("first on heap")
            has = self.int_cmp(">", I(rv.n), I(0))
            if has is False or not rv.items:
                return none()
            return opt(has, rv.items[0])
        if name in ("first_mut", "front_mut"):
            has = self.int_cmp(">", I(rv.n), I(0))
            if has is False or not rv.items:
                return none()
            return opt(has, Rf(place.ext(("i", I(0, "usize")))))
        if name in ("last", "back"):
            has = self.int_cmp(">", I(rv.n), I(0))
            if has is False or not rv.items:
                return none()
            idx = self.binop("Sub", I(rv.n), I(1)) if has is True else I(zi(I(rv.n)) - 1)
            return opt(has, self.vec_get(rv, idx, check=False))
        if name in ("last_mut", "back_mut"):
            has = self.int_cmp(">", I(rv.n), I(0))
            if has is False or not rv.items:
                return none()
            idx = I(rv.n - 1, "usize") if isinstance(rv.n, int) else I(rv.n - 1, "usize")
            return opt(has, Rf(place.ext(("i", idx))))
        if name == "get":
            idx = D()
            if isinstance(idx, St):
                raise Unsupported("get(range)")
            inb = band(self.int_cmp(">=", idx, I(0)), self.int_cmp("<", idx, I(rv.n)))
            if inb is False or not rv.items:
                return none()
            return opt(inb, self.vec_get(rv, idx, check=False))
        if name == "get_mut":
            idx = D()
            inb = band(self.int_cmp(">=", idx, I(0)), self.int_cmp("<", idx, I(rv.n)))
            if inb is False or not rv.items:
                return none()
            return opt(inb, Rf(place.ext(("i", idx))))
        if name == "contains":
            x = D()
            return bor(*[band(p, ip.eq(it, x)) for p, it in self.vec_seq(rv)])
        if name == "pop" and rv.kind == "BinaryHeap":
            return self.heap_pop(rv, place)
        if name == "peek" and rv.kind == "BinaryHeap":
            i = self.heap_max(rv)
            if i is None:
                return none()
            has = self.int_cmp(">", I(rv.n), I(0))
            return opt(has, self.vec_get(rv, i, check=False))
        if name in ("pop", "pop_back"):
            has = self.int_cmp(">", I(rv.n), I(0))
            if has is False or not rv.items:
                return none()
            idx = I(rv.n - 1, "usize")
            x = self.vec_get(rv, idx, check=False)
            with ip.under(has):
                if isinstance(rv.n, int):
                    ip.modify(place, lambda old: Vc(ip.deref(old).items[: rv.n - 1], None, rv.kind))
                else:
                    ip.modify(place, lambda old: Vc(ip.deref(old).items, ip.deref(old).n - 1, rv.kind))
            return opt(has, x)
        if name == "pop_front":
            has = self.int_cmp(">", I(rv.n), I(0))
            if has is False or not rv.items:
                return none()
            x = rv.items[0]
            with ip.under(has):
                ip.modify(place, lambda old: self.vec_remove_at(ip.deref(old), I(0, "usize"))[0])
            return opt(has, x)
        if name == "remove":
            idx = D()
            if rv.kind == "VecDeque":
                inb = band(self.int_cmp(">=", idx, I(0)), self.int_cmp("<", idx, I(rv.n)))
                x = self.vec_get(rv, idx, check=False)
                with ip.under(inb):
                    ip.modify(place, lambda old: self.vec_remove_at(ip.deref(old), idx)[0])
                return opt(inb, x)
            self.vec_bounds(rv, idx)
            x = self.vec_get(rv, idx, check=False)
            ip.modify(place, lambda old: self.vec_remove_at(ip.deref(old), idx)[0])
            return x
        if name == "swap_remove":
            idx = D()
            self.vec_bounds(rv, idx)
            x = self.vec_get(rv, idx, check=False)
            last = self.vec_get(rv, I(zi(I(rv.n)) - 1 if not isinstance(rv.n, int) else rv.n - 1, "usize"), check=False)
            items = []
            for j, it in enumerate(rv.items):
                if it is None:
                    items.append(None)
                    continue
                items.append(ite(ip.eq(I(j), idx), last, it))
            if isinstance(rv.n, int):
                ip.write(place, Vc(items[: rv.n - 1], None, rv.kind))
            else:
                ip.write(place, Vc(items, rv.n - 1, rv.kind))
            return x
        if name == "insert":
            idx, x = [ip.deref(v) for v in A()]
            ip.panic(self.int_cmp(">", idx, I(rv.n)), "insertion index out of bounds")
            seq = self.vec_seq(rv)
            out = []
            for j, (p, it) in enumerate(seq):
                out.append((band(p, ip.eq(I(j), idx)), x))
                out.append((p, it))
            out.append((ip.eq(I(rv.n), idx), x))
            ip.write(place, self.vec_from_seq(out, rv.kind))
            return UNIT
        if name == "clear":
            ip.write(place, Vc([], None, rv.kind))
            return UNIT
        if name == "truncate":
            k = D()
            if isinstance(rv.n, int) and k.conc():
                ip.write(place, Vc(rv.items[: min(rv.n, k.v)], None, rv.kind))
            else:
                c = self.int_cmp("<", k, I(rv.n))
                ip.write(place, Vc(rv.items, ite(c, k, I(rv.n)).v, rv.kind))
            return UNIT
        if name in ("retain", "retain_mut"):
            f = A()[0]
            keep = []
            for j, (p, it) in enumerate(self.vec_seq(rv)):
                with ip.under(p):
                    if ip.g is False:
                        continue
                    arg = Rf(place.ext(("i", I(j, "usize")))) if name == "retain_mut" and place is not None else it
                    r = ip.deref(ip.call_value(f, [arg]))
                    cur = ip.deref(ip.read(place.ext(("i", I(j, "usize"))))) if name == "retain_mut" and place is not None else it
                keep.append((band(p, r), cur))
            ip.write(place, self.vec_from_seq(keep, rv.kind))
            return UNIT
        if name in ("extend", "append", "extend_from_slice"):
            o = A()[0]
            seq = self.into_seq(o)
            items = self.vec_seq(rv) + [(p, ip.deref(x)) for p, x in seq.items]
            ip.write(place, self.vec_from_seq(items, rv.kind))
            if name == "append" and isinstance(o, Rf):
                ip.write(o.place, Vc([], None, "Vec"))
            return UNIT
        if name == "drain":
            args = A()
            if args:
                r = ip.deref(args[0])
                if not (isinstance(r, St) and r.f["start"] is None and r.f["end"] is None):
                    raise Unsupported("drain of a proper sub-range")
            ip.write(place, Vc([], None, rv.kind))
            return Seq(self.vec_seq(rv))
        if name in ("into_sorted_vec", "into_vec"):
            if name == "into_vec":
                return Vc(rv.items, rv.n, "Vec")
            return self.sort_vec(Vc(rv.items, rv.n, "Vec"), lambda a, b: ip.cmp(a, b))
        if name in ("sort", "sort_unstable"):
            ip.write(place, self.sort_vec(rv, lambda a, b: ip.cmp(a, b)))
            return UNIT
        if name in ("sort_by", "sort_unstable_by"):
            f = A()[0]
            ip.write(place, self.sort_vec(rv, lambda a, b: ip.deref(ip.call_value(f, [a, b]))))
            return UNIT
        if name in ("sort_by_key", "sort_unstable_by_key", "sort_by_cached_key"):
            f = A()[0]
            ip.write(place, self.sort_vec(rv, lambda a, b: ip.cmp(ip.call_value(f, [a]), ip.call_value(f, [b]))))
            return UNIT
        if name == "reverse":
            if not isinstance(rv.n, int):
                ip.write(place, self.vec_from_seq(list(reversed(self.vec_seq(rv))), rv.kind))
                return UNIT
            ip.write(place, Vc(list(reversed(rv.items[: rv.n])), None, rv.kind))
            return UNIT
        if name == "join":
            sep = D()
            if not isinstance(rv.n, int):
                # text of a symbolic-length join is only used in messages: one opaque alternative
                return S("<joined>")
            parts = []
            for j in range(rv.n):
                if j:
                    parts.append(sep)
                parts.append(ip.deref(rv.items[j]))
            return self.concat(parts) if parts else S("")
        if name in ("binary_search", "binary_search_by_key", "binary_search_by"):
            # the algorithm of core::slice::binary_search_by (Rust >= 1.82: fixed iteration count, no early exit), executed
            # on the symbolic vector — on an UNSORTED slice it may miss an element that is present, exactly as the real one
            args = A()
            key = ip.deref(args[0]) if name != "binary_search_by" else None

            def cmp_at(idx):
                it = ip.deref(self.vec_get(rv, I(idx, "usize"), check=False))
                if name == "binary_search":
                    return ip.cmp(it, key)
                if name == "binary_search_by_key":
                    return ip.cmp(ip.call_value(args[1], [it]), key)
                return ip.deref(ip.call_value(args[0], [it]))
            n = rv.n if not isinstance(rv.n, int) else z3.IntVal(rv.n)
            cap = len(rv.items)
            if cap == 0:
                return err(I(0, "usize"))
            size, base = n, z3.IntVal(0)
            rounds = max(1, cap).bit_length() + 1
            for _ in range(rounds):
                live = size > 1
                half = size / 2
                mid = base + half
                with ip.under(band(n > 0, live)):
                    o = cmp_at(mid)
                greater = ip.tag_eq(o, 2)
                base = z3.If(zbool(live), z3.If(zbool(greater), base, mid), base)
                size = z3.If(zbool(live), size - half, size)
            with ip.under(n > 0):
                o = cmp_at(base)
            eqv, less = ip.tag_eq(o, 1), ip.tag_eq(o, 0)
            res = En("Result", ite(band(n > 0, eqv), I(0), I(1)).v,
                     {0: [I(z3.simplify(base), "usize")], 1: [I(z3.simplify(z3.If(n > 0, base + z3.If(zbool(less), 1, 0), 0)), "usize")]})
            return res
        if name == "dedup":
            raise Unsupported("Vec::dedup")
        if name == "swap":
            i, j = [ip.deref(v) for v in A()]
            x, y = self.vec_get(rv, i), self.vec_get(rv, j)
            ip.write(place.ext(("i", i)), y)
            ip.write(place.ext(("i", j)), x)
            return UNIT
        if name == "split_off":
            raise Unsupported("Vec::split_off")
        if name == "position":
            return self.m_seq("position", Seq(self.vec_seq(rv)), A, D, env, hint, tfh)
        raise Unsupported("%s::%s" % (rv.kind, name))

    def sort_vec(self, v, cmpf):
        """stable insertion sort on a concrete-length vector with symbolic keys"""
        ip = self.ip
        conc = isinstance(v.n, int)
        items = list(v.items[: v.n]) if conc else [x for x in v.items]
        while items and items[-1] is None:
            items.pop()
        n = len(items)
        for i in range(1, n):
            j = i
            while j > 0:
                a, b = items[j - 1], items[j]
                # slots beyond a symbolic length are junk: never move them
                inr = True if conc else self.vec_in(v, i)
                if inr is False:
                    break
                with ip.under(inr):
                    o = cmpf(a, b)
                gt = band(inr, ip.tag_eq(o, 2))
                if gt is False:
                    break
                items[j - 1], items[j] = ite(gt, b, a), ite(gt, a, b)
                j -= 1
        return Vc(items, None if conc else v.n, v.kind)

    def heap_max(self, rv):
        """index (I) of a maximal element by Ord (first among equals)"""
        ip = self.ip
        seq = self.vec_seq(rv)
        if not seq:
            return None
        best = I(0, "usize")
        bestv = seq[0][1]
        for j in range(1, len(seq)):
            p, it = seq[j]
            o = ip.cmp(it, bestv)
            better = band(p, ip.tag_eq(o, 2))
            best = ite(better, I(j, "usize"), best)
            bestv = ite(better, it, bestv)
        return best

    def heap_pop(self, rv, place):
        ip = self.ip
        has = self.int_cmp(">", I(rv.n), I(0))
        if has is False or not rv.items:
            return none()
        i = self.heap_max(rv)
        x = self.vec_get(rv, i, check=False)
        with ip.under(has):
            ip.modify(place, lambda old: self.vec_remove_at(ip.deref(old), i)[0])
        return opt(has, x)

    # ------------------------------------------------------------------ HashMap
    def m_map(self, name, rv, place, A, D, env, hint):
        ip = self.ip
        if name in CLONE_LIKE:
            return rv
        if name == "len":
            return self.count([p for p, k, v in rv.e])
        if name == "is_empty":
            return bnot(bor(*[p for p, k, v in rv.e]))
        if name == "get":
            found, v = self.map_lookup(rv, D())
            return opt(found, v) if v is not None else none()
        if name == "get_mut":
            key = D()
            found, v = self.map_lookup(rv, key)
            if v is None or place is None:
                return none()
            return opt(found, Rf(place.ext(("k", key))))
        if name == "contains_key":
            return self.map_lookup(rv, D())[0]
        if name == "insert":
            pt = ip.place_type(place) if place is not None else None
            k, v = A(pt[1] if pt and pt[0] in ("HashMap", "BTreeMap") and len(pt[1]) > 1 else None)
            k = ip.deref(k)
            if isinstance(v, Rf):
                v = ip.deref(v)
            nm, old = self.map_insert(rv, k, v)
            ip.write(place, nm)
            return old
        if name == "remove":
            nm, old = self.map_remove(rv, D())
            ip.write(place, nm)
            return old
        if name == "entry":
            return EntryV(place, D())
        if name == "clear":
            ip.write(place, Mp([], rv.kind))
            return UNIT
        if name in ("iter", "into_iter"):
            return Seq([(p, Tu([k, v])) for p, k, v in rv.e if p is not False and k is not None])
        if name == "iter_mut":
            return Seq([(p, Tu([k, Rf(place.ext(("k", k)))])) for p, k, v in rv.e if p is not False and k is not None])
        if name in ("keys", "into_keys"):
            return Seq([(p, k) for p, k, v in rv.e if p is not False and k is not None])
        if name in ("values", "into_values"):
            return Seq([(p, v) for p, k, v in rv.e if p is not False and k is not None])
        if name == "values_mut":
            return Seq([(p, Rf(place.ext(("k", k)))) for p, k, v in rv.e if p is not False and k is not None])
        if name == "retain":
            f = A()[0]
            e = []
            for (p, k, v) in rv.e:
                if p is False or k is None:
                    continue
                with ip.under(p):
                    r = ip.deref(ip.call_value(f, [k, Rf(place.ext(("k", k)))])) if ip.g is not False else True
                e.append((p, k, r))
            cur = ip.deref(ip.read(place))
            ne = []
            for (p, k, v) in cur.e:
                if p is False or k is None:
                    continue
                keep = True
                for (p0, k0, r) in e:
                    keep = band(keep, bor(bnot(ip.eq(k0, k)), r))
                ne.append([band(p, keep), k, v])
            ip.write(place, Mp(ne, rv.kind))
            return UNIT
        if name == "extend":
            seq = self.into_seq(A()[0])
            cur = rv
            for p, kv in seq.items:
                kv = ip.deref(kv)
                nm, _ = self.map_insert(cur, ip.deref(kv.items[0]), ip.deref(kv.items[1]))
                cur = ite(p, nm, cur)
            ip.write(place, cur)
            return UNIT
        if name == "drain":
            ip.write(place, Mp([], rv.kind))
            return Seq([(p, Tu([k, v])) for p, k, v in rv.e if p is not False and k is not None])
        if name in ("reserve", "shrink_to_fit"):
            return UNIT
        raise Unsupported("HashMap::%s" % name)

    def m_entry(self, name, rv, A, D, env, hint):
        ip = self.ip
        m = ip.deref(ip.read(rv.place))
        found, cur = self.map_lookup(m, rv.key)
        if name in ("or_default", "or_insert", "or_insert_with"):
            if found is not True:
                with ip.under(bnot(found)):
                    if ip.g is not False:
                        if name == "or_default":
                            if cur is not None:
                                dv = self.default_like(ip.deref(cur))
                            else:
                                vt = hint
                                dv = self.entry_default(rv.place)
                        elif name == "or_insert":
                            dv = D()
                        else:
                            dv = ip.call_value(A()[0], [])
                        nm, _ = self.map_insert(m, rv.key, dv)
                        ip.write(rv.place, nm)
            return Rf(rv.place.ext(("k", rv.key)))
        if name == "and_modify":
            f = A()[0]
            with ip.under(found):
                if ip.g is not False:
                    ip.call_value(f, [Rf(rv.place.ext(("k", rv.key)))])
            return rv
        raise Unsupported("Entry::%s" % name)

    def entry_default(self, place):
        """Default value of a map's value type, from the struct field declaration"""
        ip = self.ip
        from interp import ty_simple
        # find declared type: root var is `self`-like struct; walk field path
        v = place.scope.vars[place.var]
        while isinstance(v, Rf):
            place = v.place.ext(*place.path)
            v = place.scope.vars[place.var]
        t = place.scope.types.get(place.var)
        cur = v
        for acc in place.path:
            if acc[0] == "f" and isinstance(cur, St) and cur.name in ip.structs:
                ft = dict(ip.structs[cur.name][1]).get(acc[1])
                t = ty_simple(ft)
                cur = cur.f[acc[1]]
            elif acc[0] == "k" and t is not None and t[0] in ("HashMap", "BTreeMap"):
                t = t[1][1] if len(t[1]) > 1 else None
                cur = None
            else:
                t = None
        if t is not None and t[0] in ("HashMap", "BTreeMap") and len(t[1]) > 1:
            return self.default_of(t[1][1])
        raise Unsupported("cannot infer the value type for entry().or_default()")

    # ------------------------------------------------------------------ HashSet
    def m_set(self, name, rv, place, A, D, env, hint):
        ip = self.ip
        if name in CLONE_LIKE:
            return rv
        if name == "len":
            return self.count([p for p, k in rv.e])
        if name == "is_empty":
            return bnot(bor(*[p for p, k in rv.e]))
        if name == "contains":
            return self.set_contains(rv, D())
        if name == "insert":
            ns, fresh = self.set_insert(rv, D())
            ip.write(place, ns)
            return fresh
        if name == "remove":
            ns, found = self.set_remove(rv, D())
            ip.write(place, ns)
            return found
        if name == "clear":
            ip.write(place, HS([]))
            return UNIT
        if name in ("iter", "into_iter", "drain"):
            if name == "drain":
                ip.write(place, HS([]))
            return Seq([(p, k) for p, k in rv.e if p is not False and k is not None])
        if name == "extend":
            seq = self.into_seq(A()[0])
            cur = rv
            for p, k in seq.items:
                ns, _ = self.set_insert(cur, ip.deref(k))
                cur = ite(p, ns, cur)
            ip.write(place, cur)
            return UNIT
        if name == "retain":
            f = A()[0]
            e = []
            for (p, k) in rv.e:
                if p is False or k is None:
                    continue
                with ip.under(p):
                    r = ip.deref(ip.call_value(f, [k])) if ip.g is not False else True
                e.append([band(p, r), k])
            ip.write(place, HS(e))
            return UNIT
        if name in ("is_subset",):
            o = D()
            return band(*[bor(bnot(p), self.set_contains(o, k)) for p, k in rv.e if p is not False and k is not None])
        if name in ("difference", "intersection"):
            o = D()
            out = []
            for p, k in rv.e:
                if p is False or k is None:
                    continue
                c = self.set_contains(o, k)
                out.append((band(p, bnot(c) if name == "difference" else c), k))
            return Seq(out)
        if name == "union":
            o = D()
            out = [(p, k) for p, k in rv.e if p is not False and k is not None]
            for p, k in o.e:
                if p is False or k is None:
                    continue
                out.append((band(p, bnot(self.set_contains(rv, k))), k))
            return Seq(out)
        raise Unsupported("HashSet::%s" % name)

    # ------------------------------------------------------------------ iterators
    def m_seq(self, name, rv, A, D, env, hint, tfh):
        ip = self.ip
        items = rv.items
        if name in ("iter", "into_iter", "by_ref", "peekable", "fuse"):
            return rv
        if name in ("cloned", "copied"):
            return Seq([(p, ip.deref(x)) for p, x in items])
        if name == "rev":
            return Seq(list(reversed(items)))
        if name == "enumerate":
            out = []
            cnt = I(0, "usize")
            for p, x in items:
                out.append((p, Tu([cnt, x])))
                cnt = ite(p, self.binop("Add", cnt, I(1, "usize")), cnt) if p is not True else self.binop("Add", cnt, I(1, "usize"))
            return Seq(out)
        if name == "chain":
            return Seq(items + self.into_seq(A()[0]).items)
        if name == "zip":
            o = self.into_seq(A()[0]).items
            if all(p is True for p, _ in items) and all(p is True for p, _ in o):
                return Seq([(True, Tu([x, y])) for (_, x), (_, y) in zip(items, o)])
            raise Unsupported("zip of symbolic-length iterators")
        if name in ("map", "filter", "filter_map", "flat_map", "inspect", "take_while", "skip_while", "map_while"):
            f = A()[0]
            out = []
            stopped = False
            for p, x in items:
                with ip.under(band(p, bnot(stopped))):
                    if ip.g is False:
                        continue
                    r = ip.call_value(f, [x])
                if name == "map":
                    out.append((p, r))
                elif name == "filter":
                    out.append((band(p, ip.deref(r)), x))
                elif name == "filter_map":
                    r = ip.deref(r)
                    pl = r.pl.get(1)
                    if pl:
                        out.append((band(p, ip.tag_eq(r, 1)), pl[0]))
                elif name == "flat_map":
                    for p2, y in self.into_seq(r).items:
                        out.append((band(p, p2), y))
                elif name == "inspect":
                    out.append((p, x))
                elif name == "take_while":
                    ok_ = ip.deref(r)
                    out.append((band(p, bnot(stopped), ok_), x))
                    stopped = bor(stopped, band(p, bnot(ok_)))
                else:
                    raise Unsupported("Iterator::%s" % name)
            return Seq(out)
        if name == "flatten":
            out = []
            for p, x in items:
                for p2, y in self.into_seq(x).items:
                    out.append((band(p, p2), y))
            return Seq(out)
        if name in ("take", "skip", "nth", "step_by"):
            n = D()
            out = []
            cnt = I(0, "usize")
            for p, x in items:
                if name == "take":
                    out.append((band(p, self.int_cmp("<", cnt, n)), x))
                elif name == "skip":
                    out.append((band(p, self.int_cmp(">=", cnt, n)), x))
                elif name == "nth":
                    out.append((band(p, ip.eq(cnt, n)), x))
                else:
                    raise Unsupported("step_by")
                cnt = ite(p, self.binop("Add", cnt, I(1, "usize")), cnt)
            if name == "nth":
                return self.first_of(out)
            return Seq(out)
        if name in ("any", "all", "find", "position", "find_map", "for_each"):
            f = A()[0]
            done = False
            res = none()
            anyv = False
            allv = True
            cnt = I(0, "usize")
            for p, x in items:
                with ip.under(band(p, bnot(done))):
                    if ip.g is False:
                        continue
                    r = ip.call_value(f, [x])
                if name == "for_each":
                    continue
                r = ip.deref(r)
                if name == "any":
                    hit = band(p, bnot(done), r)
                    anyv = bor(anyv, hit)
                    done = bor(done, hit)
                elif name == "all":
                    bad = band(p, bnot(done), bnot(r))
                    allv = band(allv, bnot(bad))
                    done = bor(done, bad)
                elif name == "find":
                    hit = band(p, bnot(done), r)
                    res = ite(hit, some(x), res)
                    done = bor(done, hit)
                elif name == "position":
                    hit = band(p, bnot(done), r)
                    res = ite(hit, some(cnt), res)
                    done = bor(done, hit)
                    cnt = ite(p, self.binop("Add", cnt, I(1, "usize")), cnt)
                elif name == "find_map":
                    hit = band(p, bnot(done), ip.tag_eq(r, 1))
                    res = ite(hit, r, res)
                    done = bor(done, hit)
            if name == "any":
                return anyv
            if name == "all":
                return allv
            if name == "for_each":
                return UNIT
            return res
        if name == "count":
            return self.count([p for p, _ in items])
        if name in ("next", "first"):
            return self.first_of(items)
        if name == "last":
            return self.first_of(list(reversed(items)))
        if name in ("sum", "product"):
            t = (tfh or hint or (None,))[0]
            acc = None
            for p, x in items:
                x = ip.deref(x)
                if acc is None:
                    zero = F(0.0) if isinstance(x, F) else I(0, x.ty)
                    if name == "product":
                        zero = F(1.0) if isinstance(x, F) else I(1, x.ty)
                    acc = zero
                with ip.under(p):
                    nxt = self.binop("Add" if name == "sum" else "Mul", acc, x)
                acc = ite(p, nxt, acc)
            if acc is None:
                if t in ("f64", "f32"):
                    return F(0.0 if name == "sum" else 1.0)
                return I(0 if name == "sum" else 1, t if t in V.INT_RANGES else None)
            return acc
        if name in ("max", "min", "max_by_key", "min_by_key", "max_by", "min_by"):
            f = A()[0] if name not in ("max", "min") else None
            best = None
            has = False
            for p, x in items:
                if best is None:
                    best = x
                    has = p
                    continue
                if name in ("max", "min"):
                    o = ip.cmp(x, best)
                elif name.endswith("_by_key"):
                    o = ip.cmp(ip.call_value(f, [x]), ip.call_value(f, [best]))
                else:
                    o = ip.deref(ip.call_value(f, [x, best]))
                if name.startswith("max"):
                    better = bor(ip.tag_eq(o, 2), ip.tag_eq(o, 1))   # max returns the last maximal element
                else:
                    better = ip.tag_eq(o, 0)                           # min returns the first minimal element
                take = band(p, bor(bnot(has), better))
                best = ite(take, x, best)
                has = bor(has, p)
            if best is None:
                return none()
            return opt(has, best)
        if name == "fold":
            init, f = A()
            acc = init
            for p, x in items:
                with ip.under(p):
                    if ip.g is False:
                        continue
                    nxt = ip.call_value(f, [acc, x])
                acc = ite(p, nxt, acc)
            return acc
        if name == "collect":
            t = tfh or hint
            if t is None:
                raise Unsupported("collect() without a type hint")
            tn = t[0]
            if tn == "Result" or tn == "Option":
                raise Unsupported("collect into %s" % tn)
            if tn in ("Vec", "VecDeque", "BinaryHeap", "Box"):
                return self.vec_from_seq([(p, ip.deref(x) if not isinstance(x, Rf) else x) for p, x in items], tn if tn != "Box" else "Vec")
            if tn in ("HashSet", "BTreeSet"):
                cur = HS([])
                for p, x in items:
                    ns, _ = self.set_insert(cur, ip.deref(x))
                    cur = ite(p, ns, cur)
                return cur
            if tn in ("HashMap", "BTreeMap"):
                cur = Mp([], tn)
                for p, kv in items:
                    kv = ip.deref(kv)
                    nm, _ = self.map_insert(cur, ip.deref(kv.items[0]), ip.deref(kv.items[1]))
                    cur = ite(p, nm, cur)
                return cur
            if tn == "String":
                if all(p is True for p, _ in items):
                    return self.concat([ip.deref(x) for _, x in items]) if items else S("")
                raise Unsupported("collect::<String> of symbolic iterator")
            raise Unsupported("collect into %s" % tn)
        if name == "unzip":
            raise Unsupported("unzip")
        raise Unsupported("Iterator::%s" % name)

    def first_of(self, items):
        res = none()
        done = False
        for p, x in items:
            hit = band(p, bnot(done))
            res = ite(hit, some(x), res)
            done = bor(done, p)
            if done is True:
                break
        return res
