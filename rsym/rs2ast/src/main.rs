//! rs2ast <file.rs> — parse a Rust source file with syn (full), rewrite the handful of
//! std macros the units use into ordinary expressions, and print the AST in syn's
//! `{:#?}` form. bin/rsym parses that dump; nothing here interprets the program.
use std::env;
use std::fs;
use syn::parse::{Parse, ParseStream, Parser};
use syn::punctuated::Punctuated;
use syn::visit_mut::{self, VisitMut};
use syn::{parse_quote, Expr, Macro, Pat, Stmt, Token};

struct Rw;

struct MatchesArgs {
    e: Expr,
    pat: Pat,
    guard: Option<Expr>,
}
impl Parse for MatchesArgs {
    fn parse(input: ParseStream) -> syn::Result<Self> {
        let e: Expr = input.parse()?;
        input.parse::<Token![,]>()?;
        let pat = Pat::parse_multi_with_leading_vert(input)?;
        let guard = if input.peek(Token![if]) {
            input.parse::<Token![if]>()?;
            Some(input.parse::<Expr>()?)
        } else {
            None
        };
        let _ = input.parse::<Option<Token![,]>>()?;
        Ok(MatchesArgs { e, pat, guard })
    }
}

struct VecRepeat {
    e: Expr,
    n: Expr,
}
impl Parse for VecRepeat {
    fn parse(input: ParseStream) -> syn::Result<Self> {
        let e: Expr = input.parse()?;
        input.parse::<Token![;]>()?;
        let n: Expr = input.parse()?;
        Ok(VecRepeat { e, n })
    }
}

fn args(mac: &Macro) -> Option<Punctuated<Expr, Token![,]>> {
    Punctuated::<Expr, Token![,]>::parse_terminated.parse2(mac.tokens.clone()).ok()
}

fn rewrite(mac: &Macro) -> Option<Expr> {
    let name = mac.path.segments.last()?.ident.to_string();
    match name.as_str() {
        "vec" => {
            if let Some(a) = args(mac) {
                let a = a.into_iter();
                return Some(parse_quote! { __mac_vec(#(#a),*) });
            }
            if let Ok(r) = syn::parse2::<VecRepeat>(mac.tokens.clone()) {
                let (e, n) = (r.e, r.n);
                return Some(parse_quote! { __mac_vec_repeat(#e, #n) });
            }
            None
        }
        "matches" => {
            let m = syn::parse2::<MatchesArgs>(mac.tokens.clone()).ok()?;
            let (e, pat) = (m.e, m.pat);
            Some(match m.guard {
                Some(g) => parse_quote! { match #e { #pat if #g => true, _ => false } },
                None => parse_quote! { match #e { #pat => true, _ => false } },
            })
        }
        "format" | "println" | "eprintln" | "print" | "eprint" | "panic" | "write" | "writeln"
        | "assert" | "assert_eq" | "assert_ne" | "debug_assert" | "debug_assert_eq"
        | "unreachable" | "todo" | "unimplemented" | "debug" | "info" | "warn" | "error"
        | "trace" => {
            let a = args(mac)?.into_iter();
            let f = syn::Ident::new(&format!("__mac_{}", name), proc_macro2::Span::call_site());
            Some(parse_quote! { #f(#(#a),*) })
        }
        _ => None,
    }
}

impl VisitMut for Rw {
    fn visit_expr_mut(&mut self, e: &mut Expr) {
        if let Expr::Macro(m) = e {
            if let Some(new) = rewrite(&m.mac) {
                *e = new;
            }
        }
        visit_mut::visit_expr_mut(self, e);
    }
    fn visit_stmt_mut(&mut self, s: &mut Stmt) {
        if let Stmt::Macro(sm) = s {
            if let Some(new) = rewrite(&sm.mac) {
                let semi = if sm.semi_token.is_some() { Some(Default::default()) } else { None };
                *s = Stmt::Expr(new, semi);
            }
        }
        visit_mut::visit_stmt_mut(self, s);
    }
}

fn main() {
    let path = env::args().nth(1).expect("usage: rs2ast <file.rs>");
    let src = fs::read_to_string(&path).expect("read");
    let mut file = match syn::parse_file(&src) {
        Ok(f) => f,
        Err(e) => {
            eprintln!("rs2ast: parse error in {}: {}", path, e);
            std::process::exit(2);
        }
    };
    Rw.visit_file_mut(&mut file);
    println!("{:?}", file);
}
