#!/usr/bin/env python3-vt
"""Translator validation (Serval style): run the repo's own #[test] functions of a
unit through the rsym interpreter. A test passes when no panic / failed assert is
reachable. usage: selftest.py <file.rs> [extra files to load first ...]"""
import os
import sys
import time
import traceback

sys.path.insert(0, os.path.dirname(os.path.abspath(__file__)))
from interp import *  # noqa


def test_names(ip, path):
    import astload
    ast = astload.load_file(path)
    out = []

    def walk(items):
        for it in items:
            if it["_"] == "Item::Mod" and ident(it["ident"]) == "tests":
                c = unsome(it.get("content"))
                inner = c["args"][-1] if c and c.get("args") else []
                for f in inner:
                    if f["_"] == "Item::Fn":
                        attrs = str(f.get("attrs"))
                        if "'test'" in attrs or '"test"' in attrs or "test" in [a for a in attrs.split("'")]:
                            out.append(ident(f["sig"]["ident"]))
    walk(ast["items"])
    return out


def run(path, deps, verbose=True, overrides=None, cap=8):
    res = {}
    names = None
    for t in (names or [None]):
        pass
    ip0 = Interp()
    tests = test_names(ip0, path)
    for t in tests:
        ip = Interp(cap=cap, loop_bound=64, rec_bound=16)
        for d in deps:
            ip.load(d)
        ip.load(path, tests=True)
        ip.overrides["uuid_v4"] = lambda ip, a: S("id")
        for k, v in (overrides or {}).items():
            ip.overrides[k] = v
        t0 = time.time()
        try:
            ip.call(t, [])
            bad = ip.reachable(ip.panics) + ip.reachable(ip.bounds)
            res[t] = "pass" if not bad else "FAIL: " + "; ".join(m for m, _, _ in bad[:3])
        except Unsupported as e:
            res[t] = "unsupported: %s" % e
        except BoundExceeded as e:
            res[t] = "bound: %s" % e
        except Exception as e:
            res[t] = "ERROR: %s: %s" % (type(e).__name__, e)
            if verbose:
                traceback.print_exc()
        if verbose:
            print("%-50s %s (%.1fs)" % (t, res[t], time.time() - t0))
    return res


if __name__ == "__main__":
    r = run(sys.argv[1], sys.argv[2:])
    n = sum(1 for v in r.values() if v == "pass")
    print("selftest %s: %d/%d pass" % (sys.argv[1], n, len(r)))
