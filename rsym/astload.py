"""Load the `{:?}` dump printed by rs2ast (syn's Debug form) into plain Python data.

Node  = dict with key "_" = constructor name ("Expr::Call", "ItemFn", "Ident", ...),
        named fields as keys, positional fields under "args" (list).
Lists = Python lists with syn's punctuation atoms removed.
Atoms = str (identifiers, numbers, token names); string/char literals are ("str", text).
"""
import os
import re
import subprocess
import sys

TOK = re.compile(
    r"""\s*(?:
      (?P<rawstr>b?r(\#*)"(?s:.*?)"\2)
    | (?P<str>b?"(?:[^"\\]|\\[\s\S])*")
    | (?P<chr>b?'(?:[^'\\]|\\.[^']*)')
    | (?P<punct>[(){}\[\],])
    | (?P<colon>:(?!:))
    | (?P<atom>[^\s(){}\[\],:"']+(?:::[^\s(){}\[\],:"']+)*)
    )""",
    re.X,
)

PUNCT_ATOMS = {
    "Comma", "PathSep", "Plus", "Or", "Semi", "Colon", "Dot", "Paren", "Brace", "Bracket",
}


def tokenize(s):
    pos = 0
    n = len(s)
    out = []
    while pos < n:
        m = TOK.match(s, pos)
        if not m:
            if s[pos:].strip() == "":
                break
            raise ValueError("astload: cannot tokenize at %d: %r" % (pos, s[pos:pos + 60]))
        pos = m.end()
        k = m.lastgroup
        out.append((k, m.group(k)))
    return out


def unescape(lit):
    # Rust string literal (as printed by Display of proc_macro2::Literal) -> Python str
    if lit.startswith("b"):
        lit = lit[1:]
    body = lit[1:-1]
    out = []
    i = 0
    while i < len(body):
        c = body[i]
        if c != "\\":
            out.append(c)
            i += 1
            continue
        i += 1
        e = body[i]
        if e == "n":
            out.append("\n")
        elif e == "t":
            out.append("\t")
        elif e == "r":
            out.append("\r")
        elif e == "0":
            out.append("\0")
        elif e == "x":
            out.append(chr(int(body[i + 1:i + 3], 16)))
            i += 2
        elif e == "u":
            j = body.index("}", i)
            out.append(chr(int(body[i + 2:j], 16)))
            i = j
        elif e == "\n":
            i += 1
            while i < len(body) and body[i] in " \t\n":
                i += 1
            continue
        else:
            out.append(e)
        i += 1
    return "".join(out)


class P:
    def __init__(self, toks):
        self.t = toks
        self.i = 0

    def peek(self):
        return self.t[self.i] if self.i < len(self.t) else (None, None)

    def take(self):
        x = self.t[self.i]
        self.i += 1
        return x

    def expect(self, v):
        k, x = self.take()
        if x != v:
            raise ValueError("astload: expected %r got %r at token %d" % (v, x, self.i))

    def value(self):
        k, x = self.take()
        if k == "str":
            return ("str", unescape(x))
        if k == "rawstr":
            body = x[x.index('"') + 1: x.rindex('"')]
            return ("str", body)
        if k == "chr":
            return ("chr", unescape(x))
        if k == "punct":
            if x == "[":
                return self.seq("]")
            if x == "(":
                return {"_": "tuple", "args": self.seq(")")}
            if x == "{":
                # anonymous struct (not produced by syn) — treat as node
                return self.fields({"_": "anon"})
            raise ValueError("astload: unexpected %r at %d" % (x, self.i))
        if k == "atom":
            nk, nx = self.peek()
            if nx == "(":
                self.take()
                return {"_": x, "args": self.seq(")", keep=(x == "Ident"))}
            if nx == "{":
                self.take()
                return self.fields({"_": x})
            if nx == "[" and x == "TokenStream":
                self.take()
                return {"_": "TokenStream", "args": self.seq("]")}
            return x
        raise ValueError("astload: unexpected token %r" % (x,))

    def seq(self, close, keep=False):
        out = []
        while True:
            k, x = self.peek()
            if x == close and k == "punct":
                self.take()
                break
            v = self.value()
            if keep or not (isinstance(v, str) and v in PUNCT_ATOMS):
                out.append(v)
            k, x = self.peek()
            if x == "," and k == "punct":
                self.take()
        return out

    def fields(self, node):
        while True:
            k, x = self.peek()
            if x == "}" and k == "punct":
                self.take()
                break
            k, name = self.take()
            self.expect(":")
            node[name] = self.value()
            k, x = self.peek()
            if x == "," and k == "punct":
                self.take()
        return node


def parse_dump(text):
    return P(tokenize(text)).value()


def rs2ast_bin():
    here = os.path.dirname(os.path.abspath(__file__))
    cands = [
        os.environ.get("RS2AST", ""),
        os.path.join(here, "rs2ast", "target", "release", "rs2ast"),
        os.path.join(here, "..", ".cache", "rs2ast", "release", "rs2ast"),
    ]
    for c in cands:
        if c and os.path.exists(c):
            return c
    raise RuntimeError("rs2ast binary not built (run bin/setup.sh)")


def load_file(path):
    out = subprocess.run([rs2ast_bin(), path], capture_output=True, text=True)
    if out.returncode != 0:
        raise RuntimeError("rs2ast failed on %s: %s" % (path, out.stderr.strip()))
    return parse_dump(out.stdout)


if __name__ == "__main__":
    import json
    ast = load_file(sys.argv[1])
    print(json.dumps(ast, indent=1)[:5000])
