"""rsym — a predicated symbolic interpreter for the subset of Rust the checked units use.

The program is the syn AST of /repo's real source files (rs2ast). Execution is
*predicated*: there is one state; every statement runs under a path guard and every
write is `ite(guard, new, old)`, so `if`/`match` on symbolic data never forks, loops
over bounded containers are unrolled slot by slot under `i < len`, and recursion is
cut by the solver as soon as the guard of a call is unsatisfiable. Panics are
collected as (guard, message) obligations. The harness (Python) builds symbolic
inputs, calls real functions, and asks z3 whether `assumes ∧ ¬property` is satisfiable.
"""
import os
import time
from contextlib import contextmanager

import z3

import astload
import values as V
from values import (I, S, F, St, En, Tu, Vc, Mp, HS, Seq, Rf, Clo, FnV, Opaque, UNIT, Unsupported,
                    BoundExceeded, band, bor, bnot, ite, veq, zbool, is_sym, none, some, opt, ok, err,
                    ordering, simp_bool)


def ident(n):
    """Ident(x) node -> 'x'"""
    if isinstance(n, dict) and n.get("_") == "Ident":
        return n["args"][0]
    raise Unsupported("ident: %r" % (n,))


def is_some(n):
    return isinstance(n, dict) and n.get("_") == "Some"


def unsome(n):
    return n["args"][0] if is_some(n) and n["args"] else None


def path_names(p):
    return [ident(s["ident"]) for s in p["segments"]]


def ty_simple(t):
    """Type AST -> (name, [args]) ; references/boxes/arcs are looked through"""
    if t is None or t == "None":
        return None
    k = t.get("_")
    if k == "Type::Reference":
        return ty_simple(t["elem"])
    if k == "Type::Path":
        seg = t["path"]["segments"][-1]
        name = ident(seg["ident"])
        args = []
        a = seg.get("arguments")
        if isinstance(a, dict) and a.get("_") == "PathArguments::AngleBracketed":
            for ga in a.get("args", []):
                if isinstance(ga, dict) and ga.get("_") == "GenericArgument::Type":
                    args.append(ty_simple(ga["args"][0]))
        if name in ("Box", "Arc", "Rc") and args:
            return args[0]
        return (name, args)
    if k == "Type::Tuple":
        return ("tuple", [ty_simple(x) for x in t["elems"]])
    if k == "Type::Slice":
        return ("Vec", [ty_simple(t["elem"])])
    if k == "Type::Array":
        return ("Vec", [ty_simple(t["elem"])])
    if k == "Type::Infer":
        return None
    if k in ("Type::ImplTrait", "Type::TraitObject", "Type::BareFn", "Type::Paren", "Type::Never", "Type::Ptr"):
        return ("opaque", [])
    return None


class Scope:
    __slots__ = ("vars", "parent", "types")

    def __init__(self, parent=None):
        self.vars = {}
        self.parent = parent
        self.types = {}

    def find(self, name):
        s = self
        while s is not None:
            if name in s.vars:
                return s
            s = s.parent
        return None


class Ctx:
    """control context of one function/closure activation"""
    __slots__ = ("returned", "ret", "loops", "selfty", "fname", "rty")

    def __init__(self, selfty, fname, rty=None):
        self.returned = False
        self.ret = None
        self.loops = []
        self.selfty = selfty
        self.fname = fname
        self.rty = rty


class Loop:
    __slots__ = ("broken", "cont", "label", "val")

    def __init__(self, label=None):
        self.broken = False
        self.cont = False
        self.label = label
        self.val = None


class Place:
    __slots__ = ("scope", "var", "path")

    def __init__(self, scope, var, path=()):
        self.scope = scope
        self.var = var
        self.path = tuple(path)

    def ext(self, *acc):
        return Place(self.scope, self.var, self.path + tuple(acc))

    def same(self, o):
        return self.scope is o.scope and self.var == o.var and repr(self.path) == repr(o.path)

    def __repr__(self):
        return "Place(%s%r)" % (self.var, self.path)


class Interp:
    def __init__(self, cap=6, loop_bound=8, rec_bound=8):
        self.structs = {}
        self.enums = {}
        self.variants = {}     # variant name -> [(enum, idx)]
        self.fns = {}          # "mod::name" / "name" -> item
        self.methods = {}      # type -> {name: item}
        self.consts = {}
        self.froms = {}        # type -> [(param type, item)] for `impl From<X> for T`
        self.cap = cap
        self.loop_bound = loop_bound
        self.rec_bound = rec_bound
        self.g = True
        self.assumes = []
        self.panics = []       # (cond, msg)
        self.bounds = []       # (cond, msg): bound obligations, must be unsat
        self.overrides = {}    # fn name -> python callable(interp, args)
        self.split_fns = set() # functions (or "*") whose symbolic string arguments are case-split per alternative
        self.wall = None
        self.solver = z3.Solver()
        self.solver.set("timeout", 20000)
        self.nsolver = 0
        self.tsolver = 0.0
        self.depth = {}
        self.fresh_n = 0
        self.clock = 0
        self.trace_calls = {}
        self.files = []
        self.builtin_enum("Option", ["None", "Some"])
        self.builtin_enum("Result", ["Ok", "Err"])
        self.builtin_enum("Ordering", ["Less", "Equal", "Greater"])
        import builtins_rs
        self.bi = builtins_rs.Builtins(self)

    # ---------------------------------------------------------------- setup
    def builtin_enum(self, name, vs):
        self.enums[name] = [(v, None) for v in vs]
        for i, v in enumerate(vs):
            self.variants.setdefault(v, []).append((name, i))

    def load(self, path, tests=False):
        ast = astload.load_file(path)
        self.files.append(path)
        self.with_tests = tests
        self.load_items(ast["items"])

    def load_items(self, items):
        for it in items:
            k = it["_"]
            if k == "Item::Struct":
                name = ident(it["ident"])
                fields = it["fields"]
                if isinstance(fields, dict) and fields["_"] == "Fields::Named":
                    fl = [(ident(unsome(f["ident"])), f["ty"]) for f in fields["named"]]
                    self.structs[name] = ("named", fl)
                elif isinstance(fields, dict) and fields["_"] == "Fields::Unnamed":
                    fl = [(str(i), f["ty"]) for i, f in enumerate(fields["unnamed"])]
                    self.structs[name] = ("tuple", fl)
                else:
                    self.structs[name] = ("unit", [])
            elif k == "Item::Enum":
                name = ident(it["ident"])
                vs = []
                for i, v in enumerate(it["variants"]):
                    vn = ident(v["ident"])
                    f = v["fields"]
                    if isinstance(f, dict) and f["_"] == "Fields::Named":
                        shape = ("named", [(ident(unsome(x["ident"])), x["ty"]) for x in f["named"]])
                    elif isinstance(f, dict) and f["_"] == "Fields::Unnamed":
                        shape = ("tuple", [(str(j), x["ty"]) for j, x in enumerate(f["unnamed"])])
                    else:
                        shape = None
                    vs.append((vn, shape))
                    self.variants.setdefault(vn, []).append((name, i))
                self.enums[name] = vs
            elif k == "Item::Fn":
                self.fns[ident(it["sig"]["ident"])] = it
            elif k == "Item::Impl":
                st = ty_simple(it["self_ty"])
                if st is None:
                    continue
                tname = st[0]
                for ii in it["items"]:
                    if ii["_"] == "ImplItem::Fn":
                        mname = ident(ii["sig"]["ident"])
                        if mname == "from" and ii["sig"]["inputs"] and ii["sig"]["inputs"][0]["_"] == "FnArg::Typed":
                            pt = ty_simple(ii["sig"]["inputs"][0]["args"][0]["ty"])
                            self.froms.setdefault(tname, []).append((pt, ii))
                        self.methods.setdefault(tname, {})[mname] = ii
                    elif ii["_"] == "ImplItem::Const":
                        self.consts[tname + "::" + ident(ii["ident"])] = ii["expr"]
            elif k == "Item::Const":
                self.consts[ident(it["ident"])] = it["expr"]
            elif k == "Item::Mod":
                name = ident(it["ident"])
                if name == "tests" and not getattr(self, "with_tests", False):
                    continue
                c = unsome(it.get("content"))
                if c:
                    inner = c["args"][-1] if isinstance(c, dict) and c.get("args") else []
                    if isinstance(inner, list):
                        self.load_items(inner)

    # ---------------------------------------------------------------- guards / solver
    @contextmanager
    def under(self, c):
        old = self.g
        self.g = band(old, c)
        try:
            yield self.g
        finally:
            self.g = old

    def dead(self):
        return self.g is False

    def feasible(self, cond=True):
        """is guard ∧ cond satisfiable together with the harness assumptions?"""
        c = band(self.g, cond)
        if c is False:
            return False
        if c is True:
            return True
        c = simp_bool(c)
        if c is False:
            return False
        if c is True:
            return True
        t0 = time.time()
        self.solver.push()
        self.solver.add(c)
        r = self.solver.check()
        self.solver.pop()
        self.nsolver += 1
        self.tsolver += time.time() - t0
        return r != z3.unsat

    def assume(self, c):
        c = zbool(c)
        self.assumes.append(c)
        self.solver.add(c)

    def panic(self, cond, msg):
        c = band(self.g, cond)
        if c is False:
            return
        self.panics.append((c, msg))

    def bound_hit(self, cond, msg):
        c = band(self.g, cond)
        if c is False:
            return
        self.bounds.append((c, msg))

    def wall_clock(self):
        """SystemTime::now(): arbitrary non-decreasing millisecond readings (or the harness-controlled frozen reading)"""
        if getattr(self, "wall_frozen", None) is not None:
            return St("SystemTime", {"ms": I(self.wall_frozen, "u128")})
        t = self.fresh("wall")
        lo = self.wall if self.wall is not None else z3.IntVal(0)
        self.assume(z3.And(t >= lo, t < 2**62))
        self.wall = t
        return St("SystemTime", {"ms": I(t, "u128")})

    def check(self, cond):
        """satisfiability of assumes ∧ cond -> (z3 result, model|None)"""
        t0 = time.time()
        self.solver.push()
        self.solver.add(zbool(cond))
        r = self.solver.check()
        m = self.solver.model() if r == z3.sat else None
        self.solver.pop()
        self.nsolver += 1
        self.tsolver += time.time() - t0
        return r, m

    def enumerate_int(self, e, lo, hi_cap, limit=24):
        """feasible values of an integer term under the current guard and assumptions: [(cond, value)]; values above
        hi_cap are folded into one case (cond: e >= hi_cap, value hi_cap)"""
        e = z3.simplify(e)
        if z3.is_int_value(e):
            return [(True, e.as_long())]
        out = []
        for v in range(lo, hi_cap):
            c = e == v
            if self.feasible(c):
                out.append((c, v))
            if len(out) > limit:
                raise Unsupported("too many feasible values of a symbolic size")
        c = e >= hi_cap
        if self.feasible(c):
            out.append((c, hi_cap))
        return out

    def reachable(self, lst):
        """entries of a (cond, msg) list that are satisfiable under the assumptions"""
        out = []
        for c, msg in lst:
            if c is False:
                continue
            if c is True:
                out.append((msg, None, z3.sat))
                continue
            r, m = self.check(c)
            if r != z3.unsat:
                out.append((msg, m, r))
        return out

    def fresh(self, prefix, sort="int"):
        self.fresh_n += 1
        n = "%s!%d" % (prefix, self.fresh_n)
        if sort == "int":
            return z3.Int(n)
        if sort == "bool":
            return z3.Bool(n)
        if sort == "str":
            raise Unsupported("free string variables are not modelled (use alternatives)")
        if sort == "fp":
            return z3.FP(n, V.FP)
        raise Unsupported(sort)

    # ---------------------------------------------------------------- places
    def deref(self, v):
        while isinstance(v, Rf):
            v = self.read(v.place)
        return v

    def read(self, place):
        sc = place.scope
        v = sc.vars[place.var]
        for i, acc in enumerate(place.path):
            if isinstance(v, Rf):
                return self.read(v.place.ext(*place.path[i:]))
            v = self.project(v, acc)
        return v

    def project(self, v, acc):
        k = acc[0]
        if k == "f":
            if isinstance(v, St):
                if acc[1] not in v.f:
                    raise Unsupported("no field %s in %s" % (acc[1], v.name))
                return v.f[acc[1]]
            if isinstance(v, Tu):
                return v.items[int(acc[1])]
            raise Unsupported("field %s of %r" % (acc[1], type(v)))
        if k == "i":
            return self.bi.vec_get(v, acc[1], check=False)
        if k == "k":
            return self.bi.map_lookup(v, acc[1])[1]
        if k == "v":
            pl = v.pl.get(acc[1])
            if pl is None:
                raise Unsupported("payload of variant %s missing" % (acc[1],))
            return pl[acc[2]]
        raise Unsupported("accessor %r" % (acc,))

    def write(self, place, new, guard=None):
        """place := ite(guard ∧ self.g, new, old)"""
        g = self.g if guard is None else band(self.g, guard)
        if g is False:
            return
        sc = place.scope
        root = sc.vars[place.var]
        sc.vars[place.var] = self.update(root, place.path, lambda old: ite(g, new, old), g)

    def modify(self, place, fn):
        """place := ite(self.g, fn(old), old) ; fn gets the current value"""
        g = self.g
        if g is False:
            return
        sc = place.scope
        root = sc.vars[place.var]
        sc.vars[place.var] = self.update(root, place.path, lambda old: ite(g, fn(old), old), g)

    def update(self, v, path, f, g):
        if isinstance(v, Rf):
            # the variable holds a reference: write through it
            p = v.place.ext(*path)
            root = p.scope.vars[p.var]
            p.scope.vars[p.var] = self.update(root, p.path, f, g)
            return v
        if not path:
            return f(v)
        acc, rest = path[0], path[1:]
        k = acc[0]
        if k == "f":
            if isinstance(v, St):
                nf = dict(v.f)
                nf[acc[1]] = self.update(v.f[acc[1]], rest, f, g)
                return St(v.name, nf)
            if isinstance(v, Tu):
                items = list(v.items)
                items[int(acc[1])] = self.update(items[int(acc[1])], rest, f, g)
                return Tu(items)
            raise Unsupported("update field of %r" % (type(v),))
        if k == "i":
            idx = acc[1]
            items = list(v.items)
            if idx.conc():
                if idx.v < len(items):
                    items[idx.v] = self.update(items[idx.v], rest, f, g)
            else:
                for j in range(len(items)):
                    if items[j] is None:
                        continue
                    c = idx.z() == j
                    items[j] = ite(c, self.update(items[j], rest, f, g), items[j])
            return Vc(items, v.n, v.kind)
        if k == "k":
            key = acc[1]
            e = []
            for (p, kk, vv) in v.e:
                if p is False or kk is None:
                    e.append([p, kk, vv])
                    continue
                c = band(p, self.eq(kk, key))
                if c is False:
                    e.append([p, kk, vv])
                else:
                    e.append([p, kk, ite(c, self.update(vv, rest, f, g), vv)])
            return Mp(e, v.kind)
        if k == "v":
            pl = dict(v.pl)
            cur = pl.get(acc[1])
            if cur is None:
                return v
            if isinstance(cur, dict):
                cur = dict(cur)
            else:
                cur = list(cur)
            cur[acc[2]] = self.update(cur[acc[2]], rest, f, g)
            pl[acc[1]] = cur
            return En(v.name, v.tag, pl)
        raise Unsupported("update accessor %r" % (acc,))

    # ---------------------------------------------------------------- equality / ordering using user impls
    def eq(self, a, b):
        a = self.deref(a)
        b = self.deref(b)
        if a is None or b is None:
            return False
        if isinstance(a, (St, En)) and "eq" in self.methods.get(a.name, {}):
            r = self.call_item(self.methods[a.name]["eq"], [a, b], a.name)
            return r
        if isinstance(a, St) and isinstance(b, St):
            return band(*[self.eq(a.f[k], b.f[k]) for k in a.f])
        if isinstance(a, Tu):
            return band(*[self.eq(x, y) for x, y in zip(a.items, b.items)])
        if isinstance(a, Mp) and isinstance(b, Mp):
            na = self.bi.count([p for p, k, v in a.e])
            nb = self.bi.count([p for p, k, v in b.e])
            parts = [veq(na, nb)]
            for p, k, v in a.e:
                if p is False or k is None:
                    continue
                found, w = self.bi.map_lookup(b, k)
                parts.append(bor(bnot(p), band(found, self.eq(v, w) if w is not None else False)))
            return band(*parts)
        if isinstance(a, HS) and isinstance(b, HS):
            na = self.bi.count([p for p, k in a.e])
            nb = self.bi.count([p for p, k in b.e])
            return band(veq(na, nb), *[bor(bnot(p), self.bi.set_contains(b, k)) for p, k in a.e if p is not False and k is not None])
        if isinstance(a, En) and isinstance(b, En) and not (a.name in ("Option", "Result", "Ordering")) or (isinstance(a, En) and any(isinstance(x, (Mp, HS, Vc)) for pl in a.pl.values() for x in (pl.values() if isinstance(pl, dict) else pl))):
            # enum equality through self.eq so that payload maps/vecs/user eq are handled
            if isinstance(b, En):
                ta, tb = a.tag, b.tag
                conds = [veq(I(ta), I(tb))]
                for k in sorted(set(a.pl) & set(b.pl)):
                    pa, pb = a.pl[k], b.pl[k]
                    if isinstance(pa, dict):
                        inner = band(*[self.eq(pa[f], pb[f]) for f in pa])
                    else:
                        inner = band(*[self.eq(x, y) for x, y in zip(pa, pb) if x is not None and y is not None])
                    conds.append(bor(bnot(veq(I(ta), I(k))), inner))
                return band(*conds)
        if isinstance(a, Vc) and isinstance(b, Vc):
            parts = [veq(I(a.n), I(b.n))]
            for i in range(min(len(a.items), len(b.items))):
                if a.items[i] is None or b.items[i] is None:
                    continue
                parts.append(bor(bnot(self.bi.vec_in(a, i)), self.eq(a.items[i], b.items[i])))
            return band(*parts)
        if isinstance(a, S) and isinstance(b, I) or isinstance(a, I) and isinstance(b, S):
            raise Unsupported("eq str/int")
        return veq(a, b)

    def cmp(self, a, b):
        """-> Ordering enum value, using a user `cmp`/`partial_cmp` when the type defines one"""
        a = self.deref(a)
        b = self.deref(b)
        if isinstance(a, St) and a.name == "Reverse":
            return self.cmp(b.f["0"], a.f["0"])
        if isinstance(a, (St, En)) and a.name != "Ordering":
            ms = self.methods.get(a.name, {})
            if "cmp" in ms:
                return self.call_item(ms["cmp"], [a, b], a.name)
            if "partial_cmp" in ms:
                r = self.call_item(ms["partial_cmp"], [a, b], a.name)
                return r.pl[1][0]
            if isinstance(a, St):
                # derive(PartialOrd, Ord): lexicographic over fields
                res = ordering(1)
                for k in reversed(list(a.f)):
                    c = self.cmp(a.f[k], b.f[k])
                    res = ite(self.tag_eq(c, 1), res, c)
                return res
            if isinstance(a, En):
                return self.cmp(I(a.tag), I(b.tag))
        if isinstance(a, I):
            if a.conc() and b.conc():
                return ordering(0 if a.v < b.v else (1 if a.v == b.v else 2))
            return ordering(z3.If(a.z() < b.z(), 0, z3.If(a.z() == b.z(), 1, 2)))
        if isinstance(a, En) and a.name == "Ordering":
            return self.cmp(I(a.tag), I(b.tag))
        if isinstance(a, S):
            if a.conc() and b.conc():
                return ordering(0 if a.v < b.v else (1 if a.v == b.v else 2))
            res = None
            for c1, x in a.leaves():
                for c2, y in b.leaves():
                    o = ordering(0 if x < y else (1 if x == y else 2))
                    res = o if res is None else ite(band(c1, c2), o, res)
            return res
        if isinstance(a, Tu):
            res = ordering(1)
            for x, y in reversed(list(zip(a.items, b.items))):
                c = self.cmp(x, y)
                res = ite(self.tag_eq(c, 1), res, c)
            return res
        if isinstance(a, bool) or is_sym(a):
            return self.cmp(I(z3.If(zbool(a), 1, 0)), I(z3.If(zbool(b), 1, 0)))
        raise Unsupported("cmp on %r" % (type(a),))

    def tag_eq(self, e, k):
        if isinstance(e.tag, int):
            return e.tag == k
        return e.tag == k

    # ---------------------------------------------------------------- function calls
    def call(self, path, args, selfty=None):
        """call a loaded function by name: 'Type::method' or 'func'"""
        if "::" in path:
            t, m = path.rsplit("::", 1)
            item = self.methods.get(t, {}).get(m)
            if item is None:
                raise Unsupported("no method %s" % path)
            return self.call_item(item, args, t)
        item = self.fns.get(path)
        if item is None:
            raise Unsupported("no fn %s" % path)
        return self.call_item(item, args, selfty)

    def call_item(self, item, args, selfty):
        sig = item["sig"]
        fname = (selfty + "::" if selfty else "") + ident(sig["ident"])
        self.trace_calls[fname] = self.trace_calls.get(fname, 0) + 1
        if fname in self.overrides:
            return self.overrides[fname](self, args)
        if self.split_fns and (fname in self.split_fns or "*" in self.split_fns):
            # case split on a symbolic string argument: run the body once per alternative, under the
            # guard (arg == alternative), with the argument concrete; merge the results
            for idx, a in enumerate(args):
                da = a if not isinstance(a, Rf) else None
                if isinstance(da, S) and not da.conc():
                    leaves = da.leaves()
                    results = []
                    for c, txt in leaves:
                        with self.under(c):
                            if self.g is False:
                                continue
                            a2 = list(args)
                            a2[idx] = S(txt)
                            results.append((c, self.call_item(item, a2, selfty)))
                    res = None
                    for c, r in reversed(results):
                        res = r if res is None else (ite(c, r, res) if r is not None else res)
                    return res
        d = self.depth.get(fname, 0)
        if d >= 1 and not (self.g is True):
            # recursive call under a symbolic guard: ask the solver before unrolling
            if not self.feasible():
                return self.junk_ret(sig, selfty)
        if d >= self.rec_bound:
            if self.feasible():
                raise BoundExceeded("recursion bound %d reached in %s" % (self.rec_bound, fname))
            return self.junk_ret(sig, selfty)
        self.depth[fname] = d + 1
        try:
            sc = Scope(None)
            out = sig.get("output")
            rty = ty_simple(out["args"][-1]) if isinstance(out, dict) and out.get("_") == "ReturnType::Type" else None
            if rty and rty[0] == "Self" and selfty:
                rty = (selfty, [])
            cx = Ctx(selfty, fname, rty)
            params = sig["inputs"]
            if len(params) != len(args):
                raise Unsupported("arity mismatch calling %s: %d vs %d" % (fname, len(params), len(args)))
            for p, a in zip(params, args):
                if p["_"] == "FnArg::Receiver":
                    r = p["args"][0]
                    if is_some(r.get("reference")) and is_some(r.get("mutability")):
                        if not isinstance(a, Rf):
                            # &mut self on a temporary: give it a home
                            sc.vars["__self_tmp"] = a
                            a = Rf(Place(sc, "__self_tmp"))
                        sc.vars["self"] = a
                    elif is_some(r.get("reference")):
                        # &self: alias the receiver when it has a home (interior mutability through
                        # RwLock/Mutex/atomics must be visible to the caller), otherwise a copy
                        sc.vars["self"] = a
                    else:
                        sc.vars["self"] = self.deref(a)
                else:
                    pt = p["args"][0]
                    ty = pt["ty"]
                    is_mut_ref = ty.get("_") == "Type::Reference" and is_some(ty.get("mutability"))
                    is_ref = ty.get("_") == "Type::Reference"
                    if not is_mut_ref and not (is_ref and isinstance(a, Rf) and self.interior(self.deref(a))):
                        a = self.deref(a)
                    c = self.bind(pt["pat"], a, sc, cx)
                    if c is not True:
                        raise Unsupported("refutable parameter pattern")
            v = self.block(item["block"], sc, cx, hint=rty)
            if cx.returned is False:
                return v
            live = band(self.g, bnot(cx.returned))
            if live is not False and self.g is not True and cx.returned is not True and zbool(self.g).eq(zbool(cx.returned)):
                live = False
            if live is False or (live is not True and z3.is_false(z3.simplify(zbool(live)))):
                return cx.ret       # every live path left through `return`: the tail value is never used
            if v is None or (isinstance(v, V.Unit) and not isinstance(cx.ret, V.Unit)):
                return cx.ret       # the tail is a diverging expression (loop / return on every path)
            return ite(cx.returned, cx.ret, v)
        finally:
            self.depth[fname] = d

    def convert_into(self, v, tname):
        """`v.into()` / `T::from(v)` with overloads chosen by the runtime kind of v"""
        v0 = self.deref(v)
        if isinstance(v0, (St, En)) and v0.name == tname:
            return v0
        cands = self.froms.get(tname, [])
        def kind_ok(pt):
            if pt is None:
                return False
            n = pt[0]
            if isinstance(v0, S):
                return n in ("String", "str")
            if isinstance(v0, I):
                return n == (v0.ty or "i64") or (v0.ty is None and n in V.INT_RANGES)
            if isinstance(v0, F):
                return n in ("f64", "f32")
            if isinstance(v0, bool) or is_sym(v0):
                return n == "bool"
            if isinstance(v0, Vc):
                return n == "Vec"
            if isinstance(v0, Mp):
                return n == "HashMap"
            if isinstance(v0, (St, En)):
                return n == v0.name
            return False
        for pt, item in cands:
            if kind_ok(pt):
                return self.call_item(item, [v0], tname)
        if isinstance(v0, I):
            for pt, item in cands:
                if pt and pt[0] in V.INT_RANGES:
                    return self.call_item(item, [I(v0.v, pt[0])], tname)
        raise Unsupported("no From<%s> for %s" % (type(v0).__name__, tname))

    def place_type(self, place):
        """declared type (simple form) of a place, from struct field / local declarations"""
        sc, var, path = place.scope, place.var, place.path
        v = sc.vars.get(var)
        while isinstance(v, Rf):
            path = v.place.path + path
            sc, var = v.place.scope, v.place.var
            v = sc.vars.get(var)
        t = sc.types.get(var)
        cur = v
        for acc in path:
            if acc[0] == "f" and isinstance(cur, St) and cur.name in self.structs:
                ft = dict(self.structs[cur.name][1]).get(acc[1])
                t = ty_simple(ft) if ft is not None else None
                cur = cur.f.get(acc[1])
            elif acc[0] == "k" and t is not None and t[0] in ("HashMap", "BTreeMap") and len(t[1]) > 1:
                t = t[1][1]
                cur = None
            elif acc[0] == "i" and t is not None and t[0] in ("Vec", "VecDeque") and t[1]:
                t = t[1][0]
                cur = None
            elif acc[0] == "v" and t is not None and t[0] == "Option" and t[1]:
                t = t[1][0]
                cur = None
            else:
                t = None
                cur = None
            while isinstance(cur, Rf):
                cur = self.read(cur.place)
        return t

    def interior(self, v):
        """does this value have interior mutability (Arc/RwLock/Mutex/atomics/Cell in its struct)? Shared
        references to such values must alias, not copy."""
        v = v if not isinstance(v, Rf) else None
        if not isinstance(v, St) or v.name not in self.structs:
            return False
        cache = self.__dict__.setdefault("_interior", {})
        if v.name not in cache:
            txt = repr(self.structs[v.name][1])
            cache[v.name] = any(k in txt for k in ("'RwLock'", "'Mutex'", "'RefCell'", "'Cell'", "'AtomicU64'", "'AtomicUsize'", "'AtomicBool'", "'AtomicI64'"))
        return cache[v.name]

    def junk_ret(self, sig, selfty):
        """value for a call that is never executed (its guard is unsatisfiable)"""
        out = sig.get("output")
        rty = ty_simple(out["args"][-1]) if isinstance(out, dict) and out.get("_") == "ReturnType::Type" else None
        if rty is None:
            return UNIT
        if rty[0] == "Self" and selfty:
            rty = (selfty, [])
        if rty[0] == "Option":
            return none()
        if rty[0] == "Result":
            return En("Result", 1, {})
        try:
            return self.bi.default_of(rty)
        except Unsupported:
            return None

    def call_value(self, f, args):
        """call a closure / fn value"""
        if isinstance(f, Clo):
            sc = Scope(f.frame[0])
            cx = Ctx(f.frame[1].selfty, "<closure>")
            if len(f.params) != len(args):
                raise Unsupported("closure arity")
            for p, a in zip(f.params, args):
                if p.get("_") == "Pat::Type":
                    p = p["pat"]
                c = self.bind(p, a, sc, cx, autoderef=True)
                if c is not True:
                    raise Unsupported("refutable closure parameter pattern")
            v = self.ev(f.body, sc, cx)
            if cx.returned is False:
                return v
            return ite(cx.returned, cx.ret, v)
        if isinstance(f, FnV):
            if f.item is not None:
                return self.call_item(f.item, args, f.selfty)
            return self.bi.call_path(f.path, args, None, None)
        if isinstance(f, V.PyFn):
            return f.fn(self, args)
        raise Unsupported("call of %r" % (type(f),))

    # ---------------------------------------------------------------- blocks / statements
    def block(self, b, sc, cx, hint=None, newscope=True):
        s2 = Scope(sc) if newscope else sc
        stmts = b["stmts"]
        val = UNIT
        for i, st in enumerate(stmts):
            live = band(bnot(cx.returned), *[band(bnot(l.broken), bnot(l.cont)) for l in cx.loops[-1:]])
            last = i == len(stmts) - 1
            with self.under(live):
                if self.g is False:
                    continue
                k = st["_"]
                if k == "Stmt::Local":
                    self.local(st, s2, cx)
                elif k == "Stmt::Expr":
                    e = st["args"][0]
                    semi = len(st["args"]) > 1 and is_some(st["args"][1])
                    v = self.ev(e, s2, cx, hint=hint if (last and not semi) else None)
                    if last and not semi:
                        val = v
                elif k == "Stmt::Item":
                    self.load_items([st["args"][0]])
                elif k == "Stmt::Macro":
                    name = path_names(st["mac"]["path"])[-1]
                    raise Unsupported("macro %s!" % name)
                else:
                    raise Unsupported("stmt %s" % k)
        return val

    def local(self, st, sc, cx):
        pat = st["pat"]
        hint = None
        if pat["_"] == "Pat::Type":
            hint = ty_simple(pat["ty"])
            pat = pat["pat"]
        init = unsome(st.get("init"))
        if init is None:
            for n in self.pat_names(pat):
                sc.vars[n] = None
            return
        v = self.ev(init["expr"], sc, cx, hint=hint)
        if hint is not None and pat["_"] == "Pat::Ident":
            sc.types[ident(pat["ident"])] = hint
        div = unsome(init.get("diverge"))
        c = self.bind(pat, v, sc, cx)
        if div is not None:
            # let-else
            els = div["args"][-1] if div.get("_") == "tuple" else div
            with self.under(bnot(c)):
                if self.g is not False:
                    self.ev(els, sc, cx)
        elif c is not True:
            raise Unsupported("refutable let pattern")

    def pat_names(self, pat):
        k = pat["_"]
        if k == "Pat::Ident":
            return [ident(pat["ident"])]
        if k == "Pat::Tuple":
            return sum([self.pat_names(p) for p in pat["elems"]], [])
        if k == "Pat::Type":
            return self.pat_names(pat["pat"])
        return []

    # ---------------------------------------------------------------- patterns
    def bind(self, pat, v, sc, cx, place=None, autoderef=False):
        """bind pattern against value; returns match condition. `place` (if known) lets
        by-reference bindings alias the scrutinee."""
        k = pat["_"]
        if k == "Pat::Ident":
            name = ident(pat["ident"])
            sub = unsome(pat.get("subpat"))
            # a bare identifier may be a unit variant / const
            if sub is None and not is_some(pat.get("by_ref")) and name in self.variants and name[0].isupper():
                en, idx = self.variants[name][0]
                vv = self.deref(v)
                return self.tag_eq(vv, idx)
            for cand in (v, Rf(place) if place is not None else None):
                # `let x = x.lock().unwrap();` — a reference to the variable it shadows: keep the old value under a hidden name
                if isinstance(cand, Rf) and cand.place.scope is sc and cand.place.var == name and name in sc.vars:
                    self.fresh_n += 1
                    hidden = "__shadowed_%s_%d" % (name, self.fresh_n)
                    sc.vars[hidden] = sc.vars[name]
                    moved = Rf(Place(sc, hidden, cand.place.path))
                    if cand is v:
                        v = moved
                    else:
                        place = moved.place
            if is_some(pat.get("by_ref")) and is_some(pat.get("mutability")) and place is not None:
                sc.vars[name] = Rf(place)
            elif place is not None and isinstance(v, Rf):
                sc.vars[name] = v
            else:
                sc.vars[name] = v
            if sub is not None:
                return self.bind(sub["args"][-1] if sub.get("_") == "tuple" else sub, v, sc, cx, place)
            return True
        if k == "Pat::Wild":
            return True
        if k == "Pat::Type":
            return self.bind(pat["pat"], v, sc, cx, place, autoderef)
        if k == "Pat::Paren":
            return self.bind(pat["pat"], v, sc, cx, place, autoderef)
        if k == "Pat::Reference":
            return self.bind(pat["pat"], self.deref(v) if not is_some(pat.get("mutability")) else v, sc, cx, place)
        if k == "Pat::Lit":
            lit = self.ev(pat, sc, cx) if pat.get("lit") is None else self.literal(pat["lit"], None)
            return self.eq(self.deref(v), lit)
        if k == "Pat::Tuple":
            if isinstance(v, Rf):
                place = v.place
                vv = self.deref(v)
                byref = True
            else:
                vv = v
                byref = False
            if not isinstance(vv, Tu):
                raise Unsupported("tuple pattern on %r" % (type(vv),))
            conds = []
            for i, p in enumerate(pat["elems"]):
                if p["_"] == "Pat::Rest":
                    raise Unsupported("rest in tuple pattern")
                sub = vv.items[i]
                subplace = place.ext(("f", str(i))) if (place is not None) else None
                if byref and subplace is not None and not isinstance(sub, Rf):
                    conds.append(self.bind(p, Rf(subplace), sc, cx, subplace))
                else:
                    conds.append(self.bind(p, sub, sc, cx, subplace))
            return band(*conds)
        if k == "Pat::Path":
            names = path_names(pat["path"])
            vv = self.deref(v)
            r = self.resolve_variant(names, cx)
            if r is not None:
                return self.tag_eq(vv, r[1])
            c = self.const_value(names, sc, cx)
            return self.eq(vv, c)
        if k in ("Pat::TupleStruct", "Pat::Struct"):
            names = path_names(pat["path"])
            byref = isinstance(v, Rf)
            if byref:
                place = v.place
            vv = self.deref(v)
            r = self.resolve_variant(names, cx)
            if r is not None:
                en, idx = r
                if not isinstance(vv, En):
                    raise Unsupported("variant pattern %s on %r" % (names, type(vv)))
                cond = self.tag_eq(vv, idx)
                if cond is False:
                    # still bind names (junk) so that later code finds them
                    for n in self.all_pat_names(pat):
                        sc.vars[n] = None
                    return False
                pl = vv.pl.get(idx)
                if pl is None:
                    for n in self.all_pat_names(pat):
                        sc.vars[n] = None
                    return cond if not self.all_pat_names(pat) else False
                conds = [cond]
                if k == "Pat::TupleStruct":
                    for i, p in enumerate(pat["elems"]):
                        if p["_"] == "Pat::Rest":
                            break
                        sub = pl[i]
                        subplace = place.ext(("v", idx, i)) if place is not None else None
                        if byref and not isinstance(sub, Rf):
                            sub = Rf(subplace)
                        conds.append(self.bind(p, sub, sc, cx, subplace))
                else:
                    for fp in pat["fields"]:
                        fname = self.member(fp["member"])
                        sub = pl[fname]
                        subplace = place.ext(("v", idx, fname)) if place is not None else None
                        if byref and not isinstance(sub, Rf):
                            sub = Rf(subplace)
                        conds.append(self.bind(fp["pat"], sub, sc, cx, subplace))
                return band(*conds)
            # plain struct pattern
            if not isinstance(vv, St):
                raise Unsupported("struct pattern %s on %r" % (names, type(vv)))
            conds = []
            if k == "Pat::TupleStruct":
                for i, p in enumerate(pat["elems"]):
                    sub = vv.f[str(i)]
                    subplace = place.ext(("f", str(i))) if place is not None else None
                    if byref and not isinstance(sub, Rf):
                        sub = Rf(subplace)
                    conds.append(self.bind(p, sub, sc, cx, subplace))
            else:
                for fp in pat["fields"]:
                    fname = self.member(fp["member"])
                    sub = vv.f[fname]
                    subplace = place.ext(("f", fname)) if place is not None else None
                    if byref and not isinstance(sub, Rf):
                        sub = Rf(subplace)
                    conds.append(self.bind(fp["pat"], sub, sc, cx, subplace))
            return band(*conds)
        if k == "Pat::Or":
            # only alternatives without bindings
            conds = []
            for p in pat["cases"]:
                if self.all_pat_names(p):
                    raise Unsupported("or-pattern with bindings")
                conds.append(self.bind(p, v, sc, cx, place))
            return bor(*conds)
        if k == "Pat::Range":
            vv = self.deref(v)
            lo = unsome(pat.get("start"))
            hi = unsome(pat.get("end"))
            conds = []
            if lo is not None:
                conds.append(self.bi.int_cmp(">=", vv, self.ev(lo, sc, cx)))
            if hi is not None:
                op = "<=" if "Closed" in str(pat.get("limits")) else "<"
                conds.append(self.bi.int_cmp(op, vv, self.ev(hi, sc, cx)))
            return band(*conds)
        raise Unsupported("pattern %s" % k)

    def all_pat_names(self, pat):
        out = []

        def walk(p):
            if isinstance(p, dict):
                if p.get("_") == "Pat::Ident":
                    n = ident(p["ident"])
                    if not (n in self.variants and n[0].isupper()):
                        out.append(n)
                for x in p.values():
                    walk(x)
            elif isinstance(p, list):
                for x in p:
                    walk(x)
        walk(pat)
        return out

    def member(self, m):
        if m["_"] == "Member::Named":
            return ident(m["args"][0])
        idx = m["args"][0]
        return str(idx["index"]) if isinstance(idx, dict) else str(idx)

    def resolve_variant(self, names, cx):
        """path -> (enum, idx) if it names an enum variant"""
        last = names[-1]
        if len(names) >= 2:
            en = names[-2]
            if en == "Self":
                en = cx.selfty
            if en in self.enums:
                for i, (vn, _) in enumerate(self.enums[en]):
                    if vn == last:
                        return (en, i)
            return None
        if last in self.variants and last[0].isupper() and last not in self.structs:
            return self.variants[last][0]
        return None

    def const_value(self, names, sc, cx):
        key = "::".join(names[-2:]) if len(names) >= 2 else names[-1]
        if len(names) >= 2 and names[-2] == "Self":
            key = cx.selfty + "::" + names[-1]
        if key in self.consts:
            return self.ev(self.consts[key], Scope(None), Ctx(cx.selfty, "<const>"))
        if names[-1] in self.consts:
            return self.ev(self.consts[names[-1]], Scope(None), Ctx(cx.selfty, "<const>"))
        return self.bi.const_path(names)

    # ---------------------------------------------------------------- literals
    def literal(self, lit, hint):
        k = lit["_"]
        if k == "Lit::Int":
            tok = lit["token"]
            tok = tok.replace("_", "")
            ty = None
            for suf in V.INT_RANGES:
                if tok.endswith(suf):
                    ty = suf
                    tok = tok[: -len(suf)]
                    break
            if tok.endswith("f64") or tok.endswith("f32"):
                return F(float(tok[:-3]))
            if ty is None and hint and hint[0] in V.INT_RANGES:
                ty = hint[0]
            if ty is None and hint and hint[0] in ("f64", "f32"):
                return F(float(int(tok, 0)))
            return I(int(tok, 0), ty)
        if k == "Lit::Str":
            t = lit["token"]
            return S(t[1]) if isinstance(t, tuple) else S(str(t))
        if k == "Lit::Bool":
            return lit["value"] == "true"
        if k == "Lit::Float":
            tok = lit["token"].replace("_", "")
            for suf in ("f64", "f32"):
                if tok.endswith(suf):
                    tok = tok[:-3]
            return F(float(tok))
        if k == "Lit::Char":
            t = lit["token"]
            return S(t[1]) if isinstance(t, tuple) else S(str(t))
        raise Unsupported("literal %s" % k)

    # ---------------------------------------------------------------- expressions
    def ev(self, e, sc, cx, hint=None):
        if self.g is False:
            return None        # dead code under an unsatisfiable guard is not evaluated
        k = e["_"]
        m = getattr(self, "ev_" + k.split("::")[-1], None)
        if m is None:
            raise Unsupported("expression %s" % k)
        return m(e, sc, cx, hint)

    def ev_Lit(self, e, sc, cx, hint):
        return self.literal(e["lit"], hint)

    def ev_Paren(self, e, sc, cx, hint):
        return self.ev(e["expr"], sc, cx, hint)

    def ev_Group(self, e, sc, cx, hint):
        return self.ev(e["expr"], sc, cx, hint)

    def ev_Path(self, e, sc, cx, hint):
        names = path_names(e["path"])
        if len(names) == 1:
            s = sc.find(names[0])
            if s is not None:
                return s.vars[names[0]]
        r = self.resolve_variant(names, cx)
        if r is not None:
            en, idx = r
            shape = self.enums[en][idx][1]
            if shape is None or en in ("Option",):
                if en == "Option" and idx == 1:
                    return FnV(names)
                if en == "Result":
                    return FnV(names)
                return En(en, idx, {})
            return FnV(names)
        # function / constructor / const
        if len(names) >= 2:
            t = names[-2]
            if t == "Self":
                t = cx.selfty
            if t in self.methods and names[-1] in self.methods[t]:
                return FnV(names, self.methods[t][names[-1]], t)
        if len(names) == 1 and names[0] in self.fns:
            return FnV(names, self.fns[names[0]], None)
        if names[-1] in self.structs and self.structs[names[-1]][0] == "unit":
            return St(names[-1], {})
        key = "::".join(names[-2:])
        if key in self.consts or names[-1] in self.consts:
            return self.const_value(names, sc, cx)
        c = self.bi.const_path(names, soft=True)
        if c is not None:
            return c
        return FnV([cx.selfty if n == "Self" else n for n in names])

    def ev_Reference(self, e, sc, cx, hint):
        if is_some(e.get("mutability")):
            p = self.place_of(e["expr"], sc, cx)
            if p is not None:
                return Rf(p)
            v = self.ev(e["expr"], sc, cx, hint)
            if isinstance(v, Rf):
                return v
            name = "__tmp%d" % id(e)
            sc.vars[name] = v
            return Rf(Place(sc, name))
        v = self.ev(e["expr"], sc, cx, hint)
        if isinstance(v, Rf) and self.interior(self.deref(v)):
            return v
        dv = self.deref(v)
        if self.interior(dv):
            p = self.place_of(e["expr"], sc, cx)
            if p is not None:
                return Rf(p)
        return dv

    def ev_Unary(self, e, sc, cx, hint):
        op = e["op"]["_"]
        if op == "UnOp::Deref":
            v = self.ev(e["expr"], sc, cx, hint)
            return self.deref(v)
        v = self.deref(self.ev(e["expr"], sc, cx, hint))
        if v is None:
            return None
        if op == "UnOp::Not":
            if isinstance(v, I):
                raise Unsupported("bitwise not")
            return bnot(v)
        if op == "UnOp::Neg":
            if isinstance(v, I):
                if v.conc():
                    return I(-v.v, v.ty)
                return I(-v.z(), v.ty)
            if isinstance(v, F):
                return F(-v.v) if v.conc() else F(z3.fpNeg(v.z()))
        raise Unsupported("unary %s" % op)

    def ev_Binary(self, e, sc, cx, hint):
        op = e["op"]["_"].split("::")[1]
        if op in ("And", "Or"):
            a = self.deref(self.ev(e["left"], sc, cx))
            if op == "And":
                if a is False:
                    return False
                with self.under(a):
                    b = self.deref(self.ev(e["right"], sc, cx)) if self.g is not False else False
                return band(a, b)
            else:
                if a is True:
                    return True
                with self.under(bnot(a)):
                    b = self.deref(self.ev(e["right"], sc, cx)) if self.g is not False else True
                return bor(a, b)
        if op.endswith("Assign"):
            p = self.place_of(e["left"], sc, cx)
            cur = self.deref(self.read(p))
            r = self.deref(self.ev(e["right"], sc, cx, hint=(cur.ty, []) if isinstance(cur, I) and cur.ty else None))
            nv = self.bi.binop(op[:-6], cur, r)
            self.write(p, nv)
            return UNIT
        a = self.deref(self.ev(e["left"], sc, cx))
        h = None
        if isinstance(a, I) and a.ty:
            h = (a.ty, [])
        elif isinstance(a, F):
            h = ("f64", [])
        b = self.deref(self.ev(e["right"], sc, cx, hint=h))
        if op in ("Eq", "Ne"):
            r = self.eq(a, b)
            return r if op == "Eq" else bnot(r)
        return self.bi.binop(op, a, b)

    def ev_Assign(self, e, sc, cx, hint):
        left = e["left"]
        if left["_"] == "Expr::Path" and path_names(left["path"]) == ["_"]:
            self.ev(e["right"], sc, cx)
            return UNIT
        p = self.place_of(left, sc, cx)
        if p is None:
            raise Unsupported("assignment to non-place")
        cur = None
        try:
            cur = self.read(p)
        except Exception:
            cur = None
        h = None
        curd = self.deref(cur) if cur is not None else None
        if isinstance(curd, I) and curd.ty:
            h = (curd.ty, [])
        v = self.ev(e["right"], sc, cx, hint=h)
        if not isinstance(cur, Rf) or left["_"] == "Expr::Unary":
            v = self.deref(v) if not isinstance(cur, Rf) and isinstance(v, Rf) and False else v
        if isinstance(v, I) and v.ty is None and isinstance(curd, I):
            v = I(v.v, curd.ty)
        if left["_"] == "Expr::Path" and isinstance(cur, Rf):
            # rebinding a reference variable itself
            if isinstance(v, Rf):
                p.scope.vars[p.var] = v if self.g is True else ite(self.g, v, cur)
                return UNIT
        self.write(p, v)
        return UNIT

    def place_of(self, e, sc, cx):
        """Place for a place expression, else None"""
        k = e["_"]
        if k == "Expr::Path":
            names = path_names(e["path"])
            if len(names) != 1:
                return None
            s = sc.find(names[0])
            if s is None:
                return None
            v = s.vars[names[0]]
            if isinstance(v, Rf):
                return v.place
            return Place(s, names[0])
        if k in ("Expr::Paren", "Expr::Group"):
            return self.place_of(e["expr"], sc, cx)
        if k == "Expr::Field":
            b = self.place_of(e["base"], sc, cx)
            if b is None:
                return None
            p = b.ext(("f", self.member(e["member"])))
            try:
                cur = self.read(p)
            except Unsupported:
                return p
            if isinstance(cur, Rf):
                return cur.place
            return p
        if k == "Expr::Index":
            b = self.place_of(e["expr"], sc, cx)
            if b is None:
                return None
            idx = self.deref(self.ev(e["index"], sc, cx))
            if isinstance(idx, St):
                return None
            cur = self.deref(self.read(b))
            if isinstance(cur, Mp):
                return b.ext(("k", idx))
            if not isinstance(idx, I):
                raise Unsupported("index by %r" % (type(idx),))
            self.bi.vec_bounds(cur, idx)
            return b.ext(("i", idx))
        if k == "Expr::Unary" and e["op"]["_"] == "UnOp::Deref":
            inner = self.place_of(e["expr"], sc, cx)
            if inner is not None:
                try:
                    cur = self.read(inner)
                except Unsupported:
                    cur = None
                if isinstance(cur, Rf):
                    return cur.place
                return inner
            v = self.ev(e["expr"], sc, cx)
            if isinstance(v, Rf):
                return v.place
            return None
        if k == "Expr::MethodCall" or k == "Expr::Call":
            v = self.ev(e, sc, cx)
            if isinstance(v, Rf):
                return v.place
            return None
        return None

    def ev_Field(self, e, sc, cx, hint):
        b = self.ev(e["base"], sc, cx)
        if b is None:
            return None
        name = self.member(e["member"])
        if isinstance(b, Rf):
            p = b.place.ext(("f", name))
            v = self.read(p)
            return v
        if isinstance(b, St):
            if name not in b.f:
                raise Unsupported("no field %s in %s" % (name, b.name))
            return b.f[name]
        if isinstance(b, Tu):
            return b.items[int(name)]
        raise Unsupported("field %s of %r" % (name, type(b)))

    def ev_Index(self, e, sc, cx, hint):
        b = self.deref(self.ev(e["expr"], sc, cx))
        idx = self.deref(self.ev(e["index"], sc, cx))
        if isinstance(b, Mp):
            found, v = self.bi.map_lookup(b, idx)
            self.panic(bnot(found), "index: key not found")
            return v
        if isinstance(idx, St) and idx.name == "Range":
            return self.bi.slice_range(b, idx)
        return self.bi.vec_get(b, idx, check=True)

    def ev_Tuple(self, e, sc, cx, hint):
        if not e["elems"]:
            return UNIT
        hs = hint[1] if hint and hint[0] == "tuple" else [None] * len(e["elems"])
        return Tu([self.ev(x, sc, cx, hs[i] if i < len(hs) else None) for i, x in enumerate(e["elems"])])

    def ev_Array(self, e, sc, cx, hint):
        h = hint[1][0] if hint and hint[1] else None
        return Vc([self.deref(self.ev(x, sc, cx, h)) for x in e["elems"]])

    def ev_Cast(self, e, sc, cx, hint):
        t = ty_simple(e["ty"])
        v = self.deref(self.ev(e["expr"], sc, cx))
        return self.bi.cast(v, t[0] if t else None)

    def ev_Block(self, e, sc, cx, hint):
        return self.block(e["block"], sc, cx, hint)

    def ev_Unsafe(self, e, sc, cx, hint):
        return self.block(e["block"], sc, cx, hint)

    def ev_Struct(self, e, sc, cx, hint):
        names = path_names(e["path"])
        r = self.resolve_variant(names, cx)
        fields = {}
        if r is not None:
            en, idx = r
            shape = self.enums[en][idx][1]
            ftys = dict(shape[1]) if shape else {}
            for fv in e["fields"]:
                n = self.member(fv["member"])
                fields[n] = self.deref_unless_mutref(self.ev(fv["expr"], sc, cx, ty_simple(ftys.get(n))), ftys.get(n))
            return En(en, idx, {idx: fields})
        name = names[-1]
        if name == "Self":
            name = cx.selfty
        sd = self.structs.get(name)
        ftys = dict(sd[1]) if sd else {}
        for fv in e["fields"]:
            n = self.member(fv["member"])
            fields[n] = self.deref_unless_mutref(self.ev(fv["expr"], sc, cx, ty_simple(ftys.get(n))), ftys.get(n))
        rest = unsome(e.get("rest"))
        if rest is not None:
            base = self.deref(self.ev(rest, sc, cx, (name, [])))
            for n, v in base.f.items():
                fields.setdefault(n, v)
        if sd:
            ordered = {}
            for n, _ in sd[1]:
                if n not in fields:
                    raise Unsupported("struct %s literal misses field %s" % (name, n))
                ordered[n] = fields[n]
            fields = ordered
        return St(name, fields)

    def deref_unless_mutref(self, v, ty):
        if isinstance(v, Rf) and not (isinstance(ty, dict) and ty.get("_") == "Type::Reference" and is_some(ty.get("mutability"))):
            return self.deref(v)
        if isinstance(v, I) and v.ty is None:
            t = ty_simple(ty)
            if t and t[0] in V.INT_RANGES:
                return I(v.v, t[0])
        return v

    def ev_If(self, e, sc, cx, hint):
        s2 = Scope(sc)
        c = self.cond(e["cond"], s2, cx)
        els = unsome(e.get("else_branch"))
        if isinstance(els, dict) and els.get("_") == "tuple":
            els = els["args"][-1]
        tv = ev = None
        if c is not False:
            with self.under(c):
                if self.g is not False:
                    tv = self.block(e["then_branch"], s2, cx, hint)
        if els is not None and c is not True:
            with self.under(bnot(c)):
                if self.g is not False:
                    ev = self.ev(els, sc, cx, hint)
        if els is None:
            return UNIT
        if tv is None:
            return ev
        if ev is None:
            return tv
        return ite(c, tv, ev)

    def cond(self, c, sc, cx):
        """condition of if/while: bool expr, `let PAT = EXPR`, or `&&` chains of those"""
        k = c["_"]
        if k == "Expr::Let":
            scrut = c["expr"]
            place = self.place_of(scrut, sc, cx) if scrut["_"] in ("Expr::Path", "Expr::Field", "Expr::Index") else None
            v = self.ev(scrut, sc, cx)
            if scrut["_"] == "Expr::Reference" and is_some(scrut.get("mutability")) and isinstance(v, Rf):
                place = v.place
            return self.bind(c["pat"], v, sc, cx, place if isinstance(v, Rf) else None)
        if k == "Expr::Binary" and c["op"]["_"] == "BinOp::And":
            a = self.cond(c["left"], sc, cx)
            if a is False:
                return False
            with self.under(a):
                b = self.cond(c["right"], sc, cx) if self.g is not False else False
            return band(a, b)
        if k == "Expr::Paren":
            return self.cond(c["expr"], sc, cx)
        v = self.deref(self.ev(c, sc, cx))
        if v is None:
            return False        # value of dead code (unsatisfiable guard)
        if not (isinstance(v, bool) or is_sym(v)):
            raise Unsupported("non-bool condition %r" % (v,))
        return simp_bool(v) if is_sym(v) and False else v

    def ev_Match(self, e, sc, cx, hint):
        scrut = e["expr"]
        v = self.ev(scrut, sc, cx)
        place = None
        if isinstance(v, Rf):
            place = v.place
        result = None
        taken = False   # some earlier arm matched
        arms = []
        for arm in e["arms"]:
            s2 = Scope(sc)
            c = self.bind(arm["pat"], v, s2, cx, place)
            guard = unsome(arm.get("guard"))
            if guard is not None and c is not False:
                gexp = guard["args"][-1] if guard.get("_") == "tuple" else guard
                with self.under(band(bnot(taken), c)):
                    gv = self.deref(self.ev(gexp, s2, cx)) if self.g is not False else False
                c = band(c, gv)
            eff = band(bnot(taken), c)
            if eff is False:
                continue
            with self.under(eff):
                if self.g is False:
                    continue
                av = self.ev(arm["body"], s2, cx, hint)
            arms.append((eff, av))
            taken = bor(taken, c)
            if taken is True:
                break
        if not arms:
            return UNIT
        result = arms[-1][1]
        for eff, av in reversed(arms[:-1]):
            if result is None:
                result = av
            elif av is None:
                pass
            else:
                result = ite(eff, av, result)
        return result

    def ev_Return(self, e, sc, cx, hint):
        x = unsome(e.get("expr"))
        v = self.ev(x, sc, cx, cx.rty) if x is not None else UNIT
        self.do_return(cx, v)
        self.g = False
        return None

    def do_return(self, cx, v):
        g = self.g
        if g is False:
            return
        if isinstance(v, Rf) and False:
            v = self.deref(v)
        if cx.returned is False:
            cx.ret = v
        else:
            cx.ret = ite(g, v, cx.ret)
        cx.returned = bor(cx.returned, g)

    def ev_Try(self, e, sc, cx, hint):
        v = self.deref(self.ev(e["expr"], sc, cx))
        if v is None:
            self.g = False      # the operand was a call that is never executed (unsatisfiable guard)
            return None
        if not isinstance(v, En) or v.name not in ("Option", "Result"):
            raise Unsupported("? on %r" % (v,))
        if v.name == "Option":
            bad = self.tag_eq(v, 0)
            with self.under(bad):
                if self.g is not False:
                    self.do_return(cx, none())
            self.g = band(self.g, bnot(bad))   # the rest of the enclosing statement only runs on Some
            pl = v.pl.get(1)
            return pl[0] if pl else None
        bad = self.tag_eq(v, 1)
        with self.under(bad):
            if self.g is not False:
                ev_ = v.pl.get(1)
                self.do_return(cx, err(ev_[0]) if ev_ else En("Result", 1, {}))
        self.g = band(self.g, bnot(bad))
        pl = v.pl.get(0)
        return pl[0] if pl else None

    def ev_Closure(self, e, sc, cx, hint):
        return Clo(e["inputs"], e["body"], (sc, cx))

    def ev_Break(self, e, sc, cx, hint):
        if not cx.loops:
            raise Unsupported("break outside loop")
        l = cx.loops[-1]
        x = unsome(e.get("expr"))
        if x is not None:
            v = self.ev(x, sc, cx)
            l.val = v if l.val is None else ite(self.g, v, l.val)
        l.broken = bor(l.broken, self.g)
        self.g = False
        return None

    def ev_Continue(self, e, sc, cx, hint):
        l = cx.loops[-1]
        l.cont = bor(l.cont, self.g)
        self.g = False
        return None

    def ev_While(self, e, sc, cx, hint):
        l = Loop()
        cx.loops.append(l)
        try:
            it = 0
            while True:
                l.cont = False
                s2 = Scope(sc)
                with self.under(band(bnot(l.broken), bnot(cx.returned))):
                    if self.g is False:
                        break
                    c = self.cond(e["cond"], s2, cx)
                    if c is False:
                        break
                    if it >= 1 and c is not True:
                        if not self.feasible(c):
                            break
                        if os.environ.get("RSYM_DEBUG_LOOPS"):
                            r_, m_ = self.check(band(self.g, c))
                            print("loop", cx.fname, "iteration", it, "still feasible:", r_, str(simp_bool(c))[:300])
                    if it >= self.loop_bound:
                        if self.feasible(c):
                            raise BoundExceeded("loop bound %d reached in %s" % (self.loop_bound, cx.fname))
                        break
                    with self.under(c):
                        self.block(e["body"], s2, cx)
                    # iterations after this one only happen if c held
                    l.broken = bor(l.broken, band(self.g, bnot(c)))
                it += 1
        finally:
            cx.loops.pop()
        return UNIT

    def ev_Loop(self, e, sc, cx, hint):
        l = Loop()
        cx.loops.append(l)
        try:
            it = 0
            while True:
                l.cont = False
                with self.under(band(bnot(l.broken), bnot(cx.returned))):
                    if self.g is False:
                        break
                    if it >= 1 and not self.feasible():
                        break
                    if it >= self.loop_bound:
                        if self.feasible():
                            raise BoundExceeded("loop bound %d reached in %s" % (self.loop_bound, cx.fname))
                        break
                    self.block(e["body"], Scope(sc), cx)
                it += 1
        finally:
            cx.loops.pop()
        return l.val if l.val is not None else UNIT

    def ev_ForLoop(self, e, sc, cx, hint):
        itv = self.ev(e["expr"], sc, cx)
        seq = self.bi.into_seq(itv)
        l = Loop()
        cx.loops.append(l)
        try:
            for (present, item) in seq.items:
                l.cont = False
                c = band(present, bnot(l.broken), bnot(cx.returned))
                if c is False:
                    continue
                with self.under(c):
                    if self.g is False:
                        continue
                    s2 = Scope(sc)
                    bc = self.bind(e["pat"], item, s2, cx)
                    if bc is not True:
                        raise Unsupported("refutable for pattern")
                    self.block(e["body"], s2, cx)
        finally:
            cx.loops.pop()
        return UNIT

    def ev_Range(self, e, sc, cx, hint):
        lo = unsome(e.get("start"))
        hi = unsome(e.get("end"))
        lov = self.deref(self.ev(lo, sc, cx)) if lo is not None else None
        hiv = self.deref(self.ev(hi, sc, cx)) if hi is not None else None
        closed = "Closed" in str(e.get("limits"))
        return St("Range", {"start": lov, "end": hiv, "closed": closed})

    def ev_Macro(self, e, sc, cx, hint):
        name = path_names(e["mac"]["path"])[-1]
        raise Unsupported("macro %s!" % name)

    def ev_Call(self, e, sc, cx, hint):
        f = e["func"]
        if f["_"] == "Expr::Path":
            names = path_names(f["path"])
            # local closure variable?
            if len(names) == 1:
                s = sc.find(names[0])
                if s is not None:
                    fv = self.deref(s.vars[names[0]])
                    args = [self.ev(a, sc, cx) for a in e["args"]]
                    return self.call_value(fv, args)
            names = [cx.selfty if n == "Self" and cx.selfty else n for n in names]
            # enum variant / tuple struct constructors
            r = self.resolve_variant(names, cx)
            if r is not None:
                en, idx = r
                shape = self.enums[en][idx][1]
                ftys = [t for _, t in shape[1]] if shape else []
                hs = []
                if en in ("Option", "Result") and hint and hint[1]:
                    hs = [hint[1][0] if (en == "Option" or idx == 0) else (hint[1][1] if len(hint[1]) > 1 else None)]
                args = []
                for i, a in enumerate(e["args"]):
                    h = ty_simple(ftys[i]) if i < len(ftys) else (hs[i] if i < len(hs) else None)
                    v = self.ev(a, sc, cx, h)
                    args.append(self.deref_unless_mutref(v, ftys[i] if i < len(ftys) else None) if en not in ("Option", "Result") else v)
                return En(en, idx, {idx: args})
            if names[-1] in self.structs and self.structs[names[-1]][0] == "tuple" and not (len(names) >= 2 and names[-2] in self.methods and names[-1] in self.methods[names[-2]]):
                sd = self.structs[names[-1]]
                args = [self.deref(self.ev(a, sc, cx, ty_simple(sd[1][i][1]))) for i, a in enumerate(e["args"])]
                return St(names[-1], {str(i): self.deref_unless_mutref(a, sd[1][i][1]) for i, a in enumerate(args)})
            # user function
            item = None
            selfty = None
            if len(names) >= 2 and names[-2] in self.methods and names[-1] in self.methods[names[-2]]:
                item = self.methods[names[-2]][names[-1]]
                selfty = names[-2]
            elif len(names) == 1 and names[0] in self.fns:
                item = self.fns[names[0]]
            elif len(names) >= 2 and names[-1] in self.fns and names[-2] not in self.structs and names[-2] not in self.enums and not self.bi.knows_path(names):
                item = self.fns[names[-1]]
            if item is not None:
                ptys = []
                for p in item["sig"]["inputs"]:
                    ptys.append(None if p["_"] == "FnArg::Receiver" else ty_simple(p["args"][0]["ty"]))
                args = [self.ev(a, sc, cx, ptys[i] if i < len(ptys) else None) for i, a in enumerate(e["args"])]
                return self.call_item(item, args, selfty)
            # builtin path; arguments evaluated lazily by the builtin when needed
            return self.bi.call_path(names, e["args"], (sc, cx), hint)
        fv = self.deref(self.ev(f, sc, cx))
        args = [self.ev(a, sc, cx) for a in e["args"]]
        return self.call_value(fv, args)

    def ev_MethodCall(self, e, sc, cx, hint):
        name = ident(e["method"])
        recv_e = e["receiver"]
        # evaluate the receiver; keep a place when it is one (for &mut self methods)
        place = self.place_of(recv_e, sc, cx) if recv_e["_"] in ("Expr::Path", "Expr::Field", "Expr::Index", "Expr::Paren", "Expr::Unary") else None
        if place is not None:
            rv = self.read(place)
            if isinstance(rv, Rf):
                place = rv.place
                rv = self.deref(rv)
        else:
            rv = self.ev(recv_e, sc, cx)
            if isinstance(rv, Rf):
                place = rv.place
                rv = self.deref(rv)
        tf = e.get("turbofish")
        tfh = None
        if isinstance(tf, dict) and tf.get("_") == "Some":
            ga = tf["args"][0]
            lst = ga.get("args", []) if isinstance(ga, dict) else []
            for x in lst:
                if isinstance(x, dict) and x.get("_") == "GenericArgument::Type":
                    tfh = ty_simple(x["args"][0])
        # user-defined method?
        tname = rv.name if isinstance(rv, (St, En)) else None
        if tname and name in self.methods.get(tname, {}) and not (tname in ("Option", "Result", "Ordering")):
            item = self.methods[tname][name]
            recv_param = item["sig"]["inputs"][0] if item["sig"]["inputs"] else None
            if recv_param is not None and recv_param["_"] == "FnArg::Receiver":
                r = recv_param["args"][0]
                mutref = is_some(r.get("reference")) and is_some(r.get("mutability"))
                byref = is_some(r.get("reference"))
                if mutref:
                    if place is None:
                        tmp = "__recv%d" % id(e)
                        sc.vars[tmp] = rv
                        place = Place(sc, tmp)
                    selfarg = Rf(place)
                elif byref and place is not None:
                    selfarg = Rf(place)
                else:
                    selfarg = rv
                ptys = [ty_simple(p["args"][0]["ty"]) for p in item["sig"]["inputs"][1:]]
                args = [self.ev(a, sc, cx, ptys[i] if i < len(ptys) else None) for i, a in enumerate(e["args"])]
                return self.call_item(item, [selfarg] + args, tname)
        return self.bi.method(name, rv, place, e["args"], (sc, cx), hint or tfh, tfh)
