"""Builtin paths (constructors, free functions, rewritten macros) for rsym."""
import os

import z3

import values as V
from values import (I, S, F, St, En, Tu, Vc, Mp, HS, Seq, Rf, Clo, FnV, Opaque, UNIT, Unsupported,
                    BoundExceeded, band, bor, bnot, ite, veq, zbool, is_sym, none, some, opt, ok, err,
                    ordering, simp_bool)
from builtins_rs import zi


OPAQUE_BASE = 10**12
NTAG = 1000


def rust_f64_text(x, debug):
    """text of an f64 under `{:?}` (debug) / `{}`: Rust prints the shortest round-trip decimal, never an exponent under
    Display, an exponent under Debug outside [1e-5, 1e16); only the range where Python's repr is plain decimal is modelled"""
    import math
    if x != x:
        return "NaN"
    if math.isinf(x):
        return "inf" if x > 0 else "-inf"
    if x == 0:
        neg = math.copysign(1.0, x) < 0
        return ("-0" if neg else "0") + (".0" if debug else "")
    if not (1e-4 <= abs(x) < 1e16):
        raise Unsupported("formatting an f64 outside [1e-4, 1e16)")
    r = repr(x)
    if r.endswith(".0") and not debug:
        r = r[:-2]
    return r


class CallsMixin:
    _fmt_fns = {}
    _tmpl_tags = {}

    # ------------------------------------------------------------------ tiny file-system model (C20-style units)
    def fs_place(self):
        from interp import Scope, Place
        ip = self.ip
        if not hasattr(ip, "fs_scope"):
            ip.fs_scope = Scope(None)
            ip.fs_scope.vars["fs"] = Mp([])
        return Place(ip.fs_scope, "fs")

    def fs_get(self):
        return self.ip.deref(self.ip.read(self.fs_place()))

    def path_join(self, a, b):
        return self.concat([a, S("/"), b])

    def fs_step(self):
        """one file-system mutation is about to happen: returns (applies fully, is the interrupted one).
        Without an armed crash point (ip.fs_crash None) every mutation applies. With one, mutation number
        ip.fs_crash (counted from arming) is the one the crash interrupts and later ones never happen."""
        ip = self.ip
        if getattr(ip, "fs_crash", None) is None:
            return True, False
        n = ip.fs_ops
        ip.fs_ops = n + 1 if ip.g is True else z3.If(zbool(ip.g), n + 1, n)
        return n < ip.fs_crash, n == ip.fs_crash

    def fs_put(self, path, content, partial_content=None):
        """file-system mutation: path := content (None = remove); an interrupted write leaves partial_content"""
        ip = self.ip
        full, part = self.fs_step()
        with ip.under(full):
            fsm = self.fs_get()
            nm = self.map_remove(fsm, path)[0] if content is None else self.map_insert(fsm, path, content)[0]
            ip.write(self.fs_place(), nm)
        if partial_content is not None and part is not False:
            with ip.under(part):
                ip.write(self.fs_place(), self.map_insert(self.fs_get(), path, partial_content)[0])


    def is_alternatives(self, s):
        try:
            s.leaves()
            return True
        except Unsupported:
            return False

    def default_of(self, t):
        """Default::default() for a simple type (name, args)"""
        if t is None:
            raise Unsupported("Default::default() without a type hint")
        n = t[0]
        if n in V.INT_RANGES:
            return I(0, n)
        if n in ("f64", "f32"):
            return F(0.0)
        if n == "bool":
            return False
        if n in ("String", "str"):
            return S("")
        if n in ("Vec", "VecDeque", "BinaryHeap"):
            return Vc([], None, n)
        if n in ("HashMap", "BTreeMap"):
            return Mp([], n)
        if n in ("HashSet", "BTreeSet"):
            return HS([])
        if n == "Option":
            return none()
        if n == "tuple":
            return Tu([self.default_of(x) for x in t[1]])
        ms = self.ip.methods.get(n, {})
        if "default" in ms:
            return self.ip.call_item(ms["default"], [], n)
        if n in self.ip.structs:
            kind, fl = self.ip.structs[n]
            from interp import ty_simple
            return St(n, {f: self.default_of(ty_simple(ty)) for f, ty in fl})
        raise Unsupported("Default for %s" % n)

    def evargs(self, args, env, hints=None):
        if env is None:
            return list(args)
        sc, cx = env
        out = []
        for i, a in enumerate(args):
            out.append(self.ip.ev(a, sc, cx, hints[i] if hints and i < len(hints) else None))
        return out

    def fmt(self, args):
        """format!-family: concatenate pieces; {} placeholders filled left to right"""
        if not args:
            return S("")
        f = self.ip.deref(args[0])
        rest = [self.ip.deref(a) for a in args[1:]]
        if not isinstance(f, S) or not f.conc():
            raise Unsupported("format! with non-literal format string")
        s = f.v
        pieces = []
        i = 0
        k = 0
        buf = ""
        while i < len(s):
            c = s[i]
            if c == "{":
                if i + 1 < len(s) and s[i + 1] == "{":
                    buf += "{"
                    i += 2
                    continue
                j = s.index("}", i)
                spec = s[i + 1:j]
                if buf:
                    pieces.append(S(buf))
                    buf = ""
                name = spec.split(":")[0]
                if name == "" or name.isdigit():
                    idx = int(name) if name.isdigit() else k
                    if name == "":
                        k += 1
                    if idx >= len(rest):
                        raise Unsupported("format! argument missing")
                    pieces.append(self.to_str(rest[idx], debug="?" in spec))
                else:
                    # inline named argument captured from scope is not supported here
                    raise Unsupported("format! with inline named argument {%s}" % name)
                i = j + 1
                continue
            if c == "}":
                buf += "}"
                i += 2 if i + 1 < len(s) and s[i + 1] == "}" else 1
                continue
            buf += c
            i += 1
        if buf:
            pieces.append(S(buf))
        return self.concat(pieces)

    def concat(self, pieces):
        if all(p.conc() for p in pieces):
            return S("".join(p.v for p in pieces))
        if any(not p.conc() and not self.is_alternatives(p) for p in pieces):
            # case split the pieces that are symbolic choices among concrete texts, so that only truly opaque pieces remain
            for i_, p in enumerate(pieces):
                if not p.conc() and self.is_alternatives(p):
                    res = None
                    for cnd, txt in reversed(p.leaves()):
                        r = self.concat(pieces[:i_] + [S(txt)] + pieces[i_ + 1:])
                        res = r if res is None else ite(cnd, r, res)
                    return res
            # a piece is opaque (formatted free integer): the result is an uninterpreted function of the
            # opaque pieces, one function symbol per template; equal inputs give equal strings (congruence),
            # different templates/inputs are NOT forced to differ (over-approximation; counterexamples are replayed)
            tmpl = tuple(p.v if p.conc() else None for p in pieces)
            opaque = [p for p in pieces if not p.conc()]
            if len(opaque) == 1:
                # one opaque piece: injective arithmetic code (payload * NTAG + template tag); equal texts <=> equal
                # templates and equal payloads, and never equal to an interned (concrete) string
                tag = self._tmpl_tags.setdefault(tmpl, len(self._tmpl_tags))
                if tag >= NTAG - 1:
                    raise Unsupported("too many string templates")
                return S(opaque[0].z() * NTAG + tag)
            fn = self._fmt_fns.setdefault(tmpl, z3.Function("fmt!%d" % len(self._fmt_fns), *([z3.IntSort()] * (len(opaque) + 1))))
            return S(fn(*[p.z() for p in opaque]))
        # cross product over the alternatives of the symbolic pieces
        acc = [(True, "")]
        for p in pieces:
            nxt = []
            for c1, a in acc:
                for c2, b in p.leaves():
                    c = band(c1, c2)
                    if c is not False:
                        nxt.append((c, a + b))
            if len(nxt) > 512:
                raise Unsupported("string concatenation with too many alternatives")
            acc = nxt
        res = None
        for c, txt in reversed(acc):
            res = S(txt) if res is None else ite(c, S(txt), res)
        return res

    def int_cases(self, e, limit=64):
        """(condition, integer) alternatives of an integer term built from literals, ite and + - *; None if the term
        contains anything else (a free integer) or has more than `limit` alternatives"""
        if z3.is_int_value(e):
            return [(True, e.as_long())]
        if z3.is_app_of(e, z3.Z3_OP_ITE):
            a, b = self.int_cases(e.arg(1), limit), self.int_cases(e.arg(2), limit)
            if a is None or b is None:
                return None
            c = e.arg(0)
            out = [(band(c, c1), v) for c1, v in a] + [(band(bnot(c), c1), v) for c1, v in b]
        elif z3.is_app(e) and e.decl().kind() in (z3.Z3_OP_ADD, z3.Z3_OP_SUB, z3.Z3_OP_MUL) and e.num_args() >= 1:
            k = e.decl().kind()
            out = None
            for i_ in range(e.num_args()):
                a = self.int_cases(e.arg(i_), limit)
                if a is None:
                    return None
                if out is None:
                    out = a
                else:
                    op = (lambda x, y: x + y) if k == z3.Z3_OP_ADD else (lambda x, y: x - y) if k == z3.Z3_OP_SUB else (lambda x, y: x * y)
                    out = [(band(c1, c2), op(v1, v2)) for c1, v1 in out for c2, v2 in a]
                if len(out) > 4 * limit:
                    return None
        else:
            return None
        merged = {}
        for c, v in out:
            if c is False:
                continue
            merged[v] = bor(merged[v], c) if v in merged else c
        if len(merged) > limit:
            return None
        return list((c, v) for v, c in merged.items())

    def f_cases(self, e, limit=64):
        """(condition, python float) alternatives of an f64 term that is an ite tree over literals; None otherwise"""
        e = z3.simplify(e)
        if z3.is_fp_value(e):
            import struct
            bits = z3.simplify(z3.fpToIEEEBV(e))
            if e.isNaN():
                return [(True, float("nan"))]
            return [(True, struct.unpack(">d", struct.pack(">Q", bits.as_long()))[0])]
        if z3.is_app_of(e, z3.Z3_OP_ITE):
            a, b = self.f_cases(e.arg(1), limit), self.f_cases(e.arg(2), limit)
            if a is None or b is None or len(a) + len(b) > limit:
                return None
            c = e.arg(0)
            return [(band(c, c1), v) for c1, v in a] + [(band(bnot(c), c1), v) for c1, v in b]
        return None

    def int_to_str(self, e, depth=0):
        e = z3.simplify(e)
        if z3.is_int_value(e):
            return S(str(e.as_long()))
        if depth == 0:
            cs = self.int_cases(e)
            if cs:
                res = None
                for c, v in reversed(cs):
                    res = S(str(v)) if res is None else ite(c, S(str(v)), res)
                return res
        if z3.is_app_of(e, z3.Z3_OP_ITE) and depth < 16:
            return ite(e.arg(0), self.int_to_str(e.arg(1), depth + 1), self.int_to_str(e.arg(2), depth + 1))
        # free integer: an *opaque* string id, injective in the integer and disjoint from all interned
        # ids (equality of two such strings <=> equality of the integers); its text cannot be inspected
        n = z3.If(e >= 0, 2 * e, 1 - 2 * e)                      # non-negative code of the integer
        return S((OPAQUE_BASE + n) * NTAG + (NTAG - 1))          # tag NTAG-1 = "a formatted integer"

    def to_str(self, v, debug=False):
        v = self.ip.deref(v)
        if isinstance(v, S):
            if debug:
                return self.concat([S('"'), v, S('"')])
            return v
        if isinstance(v, I):
            if v.conc():
                return S(str(v.v))
            return self.int_to_str(v.z())
        if isinstance(v, bool):
            return S("true" if v else "false")
        if is_sym(v) and z3.is_bool(v):
            return ite(v, S("true"), S("false"))
        if isinstance(v, F) and v.conc():
            return S(rust_f64_text(v.v, debug))
        if isinstance(v, F):
            cs = self.f_cases(v.z())
            if cs is None:
                raise Unsupported("formatting a free f64")
            res = None
            for c, x in reversed(cs):
                res = S(rust_f64_text(x, debug)) if res is None else ite(c, S(rust_f64_text(x, debug)), res)
            return res
        if isinstance(v, En) and debug and v.name in getattr(self.ip, "debug_faithful", ()):
            # derive(Debug) of an enum: `Variant` / `Variant(a, b)` / `Variant { f: a }`
            res = None
            for i_, (vn, shape) in reversed(list(enumerate(self.ip.enums[v.name]))):
                if isinstance(v.tag, int) and v.tag != i_:
                    continue
                if shape is None:
                    r = S(vn)
                elif v.pl.get(i_) is None:
                    continue                       # variant not inhabited on any path
                elif shape[0] == "tuple":
                    ps = v.pl[i_]
                    ps = ps if isinstance(ps, list) else [ps[str(j)] for j in range(len(shape[1]))]
                    pieces = [S(vn + "(")]
                    for j, x in enumerate(ps):
                        if j:
                            pieces.append(S(", "))
                        pieces.append(self.to_str(x, debug=True))
                    r = self.concat(pieces + [S(")")])
                else:
                    pieces = [S(vn + " { ")]
                    for j, (fn_, _) in enumerate(shape[1]):
                        pieces.append(S((", " if j else "") + fn_ + ": "))
                        pieces.append(self.to_str(v.pl[i_][fn_], debug=True))
                    r = self.concat(pieces + [S(" }")])
                res = r if res is None else ite(self.ip.tag_eq(v, i_), r, res)
            if res is None:
                raise Unsupported("Debug of an enum value without inhabited variant")
            return res
        if isinstance(v, Vc) and debug and getattr(self.ip, "debug_faithful", ()):
            if not isinstance(v.n, int) and not z3.is_int_value(v.n):
                raise Unsupported("Debug of a vector of symbolic length")
            n = v.n if isinstance(v.n, int) else v.n.as_long()
            pieces = [S("[")]
            for j in range(n):
                if j:
                    pieces.append(S(", "))
                pieces.append(self.to_str(v.items[j], debug=True))
            return self.concat(pieces + [S("]")])
        if isinstance(v, (St, En)) and debug:
            return S("<%s:?>" % v.name)      # Debug renderings only appear in messages; never compared
        if isinstance(v, (St, En)):
            ms = self.ip.methods.get(v.name, {})
            if "to_string" in ms:
                return self.ip.call_item(ms["to_string"], [v], v.name)
            if isinstance(v, St) and v.name in ("FactHandle",) and not debug:
                return self.concat([S("FactHandle("), self.to_str(v.f["0"]), S(")")])
            # opaque rendering: text that depends only on the value identity is not modelled
            return S("<%s>" % v.name)
        if isinstance(v, (Vc, Mp, HS, Tu)):
            return S("<seq>")
        raise Unsupported("to_string of %r" % (type(v),))

    def call_path(self, names, args, env, hint):
        ip = self.ip
        last = names[-1]
        t = names[-2] if len(names) >= 2 else None
        key = "%s::%s" % (t, last) if t else last

        # rewritten macros -------------------------------------------------
        if last.startswith("__mac_"):
            m = last[6:]
            if m == "vec":
                h = hint[1][0] if hint and hint[1] else None
                return Vc([ip.deref(x) if not isinstance(x, Rf) else x for x in self.evargs(args, env, [h] * len(args))])
            if m == "vec_repeat":
                a = self.evargs(args, env)
                n = ip.deref(a[1])
                if not n.conc():
                    raise Unsupported("vec![x; n] with symbolic n")
                return Vc([ip.deref(a[0])] * n.v)
            if m == "format":
                return self.fmt(self.evargs(args, env))
            if m in ("println", "eprintln", "print", "eprint", "debug", "info", "warn", "error", "trace"):
                return UNIT
            if m in ("write", "writeln"):
                return ok(UNIT)
            if m in ("panic", "unreachable", "todo", "unimplemented"):
                ip.panic(True, "explicit %s!" % m)
                if env is not None:
                    ip.do_return(env[1], None)
                return None
            if m in ("assert", "debug_assert"):
                a = self.evargs(args[:1], env)
                ip.panic(bnot(ip.deref(a[0])), "assertion failed")
                return UNIT
            if m in ("assert_eq", "assert_ne", "debug_assert_eq"):
                a = self.evargs(args[:2], env)
                x = ip.deref(a[0])
                y = ip.deref(a[1])
                if isinstance(y, I) and y.ty is None and isinstance(x, I):
                    y = I(y.v, x.ty)
                e = ip.eq(x, y)
                ip.panic(e if m == "assert_ne" else bnot(e), "%s failed" % m)
                return UNIT
            raise Unsupported("macro %s" % m)

        a = None

        def A(hints=None):
            nonlocal a
            if a is None:
                a = self.evargs(args, env, hints)
            return a

        if last == "Some" and (t in (None, "Option")):
            h = [hint[1][0]] if hint and hint[0] == "Option" and hint[1] else None
            return some(A(h)[0])
        if last == "Ok" and t in (None, "Result"):
            h = [hint[1][0]] if hint and hint[0] == "Result" and hint[1] else None
            return ok(A(h)[0])
        if last == "Err" and t in (None, "Result"):
            return err(A()[0])
        if key in ("Vec::new", "Vec::with_capacity", "VecDeque::new", "VecDeque::with_capacity", "BinaryHeap::new",
                   "BinaryHeap::with_capacity"):
            return Vc([], None, t)
        if key in ("HashMap::new", "HashMap::with_capacity", "BTreeMap::new"):
            return Mp([], t)
        if key in ("HashMap::from", "BTreeMap::from", "HashMap::from_iter", "BTreeMap::from_iter"):
            src = ip.deref(A()[0])
            if not isinstance(src, Vc) or not (isinstance(src.n, int) or src.n is None or z3.is_int_value(src.n)):
                raise Unsupported("%s of a non-literal collection" % key)
            m = Mp([], t)
            n = len(src.items) if src.n is None else (src.n if isinstance(src.n, int) else src.n.as_long())
            for it in src.items[:n]:
                kv = ip.deref(it)
                m, _ = self.map_insert(m, ip.deref(kv.items[0]), ip.deref(kv.items[1]))
            return m
        if key in ("HashSet::new", "HashSet::with_capacity", "BTreeSet::new"):
            return HS([])
        if key == "String::new":
            return S("")
        if key in ("String::from", "str::to_string"):
            return ip.deref(A()[0])
        if key in ("Box::new", "Arc::new", "Rc::new", "RwLock::new", "Mutex::new", "RefCell::new", "Cell::new",
                   "Reverse", "cmp::Reverse", "AtomicU64::new", "AtomicUsize::new", "AtomicBool::new", "AtomicI64::new"):
            v = A([hint])[0]
            if last == "Reverse":
                return St("Reverse", {"0": ip.deref(v)})
            if isinstance(v, Clo):
                return v
            return ip.deref(v)
        if key in ("Arc::clone", "Rc::clone"):
            if (getattr(ip, "arc_clone_aliases", False) or os.environ.get("RSYM_ARC_ALIAS")) and env is not None and len(args) == 1:
                # shared ownership of the SAME object (needed when the Arc wraps a Mutex that is written through a clone)
                x = args[0]
                if x.get("_") == "Expr::Reference":
                    x = x["expr"]
                v0 = ip.ev(x, env[0], env[1])
                if isinstance(v0, Rf):
                    return v0
                pl = ip.place_of(x, env[0], env[1])
                if pl is not None:
                    return Rf(pl)
                return ip.deref(v0)
            return ip.deref(A()[0])
        if key in ("Default::default",) or (last == "default" and t is not None):
            if t in ("Default", None):
                return self.default_of(hint)
            return self.default_of((t, []))
        if key in ("Duration::from_millis", "Duration::from_secs", "Duration::from_nanos", "Duration::from_micros",
                   "Duration::from_secs_f64"):
            x = ip.deref(A()[0])
            if last == "from_millis":
                return St("Duration", {"ms": I(x.v, "u128")})
            if last == "from_secs":
                return St("Duration", {"ms": self.binop("Mul", I(x.v, "u128"), I(1000, "u128"))})
            raise Unsupported("sub-millisecond Duration constructor %s" % last)
        EMPTY = St("JsonText", {"v": none(), "empty": True})          # an empty / truncated / non-JSON file, or a directory entry
        if t == "fs" and last in ("create_dir_all", "create_dir"):
            self.fs_put(ip.deref(A()[0]), EMPTY)            # directories are entries too (exists() sees them; reading one fails)
            return ok(UNIT)
        if key in ("File::create", "File::open") or (len(names) >= 3 and names[-3] == "fs" and key in ("File::create", "File::open")):
            p = ip.deref(A()[0])
            if last == "create":
                self.fs_put(p, EMPTY)
                return ok(St("File", {"path": p}))
            found, cur = self.map_lookup(self.fs_get(), p)
            return En("Result", ite(found, I(0), I(1)).v, {0: [St("File", {"path": p})], 1: [St("IoError", {})]})
        if t == "fs" and last == "remove_dir_all":
            d = ip.deref(A()[0])
            full, _ = self.fs_step()
            with ip.under(full):
                nm, _ = self.map_remove(self.fs_get(), self.path_join(d, S("state.json")))
                nm, _ = self.map_remove(nm, d)
                ip.write(self.fs_place(), nm)
            return ok(UNIT)
        if t == "fs" and last == "remove_file":
            p = ip.deref(A()[0])
            found, _ = self.map_lookup(self.fs_get(), p)
            self.fs_put(p, None)
            return En("Result", ite(found, I(0), I(1)).v, {0: [UNIT], 1: [St("IoError", {})]})
        if t == "fs" and last == "write":
            a = A()
            self.fs_put(ip.deref(a[0]), ip.deref(a[1]), partial_content=EMPTY)
            return ok(UNIT)
        if t == "fs" and last == "read_to_string":
            found, cur = self.map_lookup(self.fs_get(), ip.deref(A()[0]))
            return En("Result", ite(found, I(0), I(1)).v, {0: [cur if cur is not None else EMPTY], 1: [St("IoError", {})]})
        if t == "fs" and last == "rename":
            a = A()
            src, dst = ip.deref(a[0]), ip.deref(a[1])
            found, cur = self.map_lookup(self.fs_get(), src)
            full, _ = self.fs_step()                        # rename is atomic: it happened or it did not
            with ip.under(band(full, found)):
                nm, _ = self.map_remove(self.fs_get(), src)
                nm, _ = self.map_insert(nm, dst, cur if cur is not None else EMPTY)
                ip.write(self.fs_place(), nm)
            return En("Result", ite(found, I(0), I(1)).v, {0: [UNIT], 1: [St("IoError", {})]})
        if t == "serde_json" and last in ("to_string_pretty", "to_string"):
            return ok(St("JsonText", {"v": some(ip.deref(A()[0])), "empty": False}))
        if t == "serde_json" and last == "from_str":
            j = ip.deref(A()[0])
            if not (isinstance(j, St) and j.name == "JsonText"):
                raise Unsupported("serde_json::from_str on text that was not produced by the modelled serializer")
            v = j.f["v"]
            return En("Result", ite(ip.tag_eq(v, 1), I(0), I(1)).v, {0: [v.pl[1][0] if v.pl.get(1) else None], 1: [St("JsonError", {})]})
        if key == "PathBuf::from" or key == "Path::new":
            return ip.deref(A()[0])
        if key == "Instant::now":
            ip.clock += 1
            return St("Instant", {"t": I(ip.clock, "u128")})
        if key == "SystemTime::now":
            return ip.wall_clock()
        if key == "Utc::now":
            w = ip.wall_clock()
            return St("DateTime", {"t": I(w.f["ms"].v, "i64")})
        if key in ("thread::spawn", "std::thread::spawn") or (last == "spawn" and t == "thread"):
            # ONE schedule: the thread body runs to completion at spawn time (no interleaving is modelled)
            f = A()[0]
            r = ip.call_value(ip.deref(f) if isinstance(f, Rf) else f, [])
            return St("JoinHandle", {"result": r if r is not None else UNIT})
        if key in ("mem::take", "std::mem::take"):
            r = A()[0]
            if not isinstance(r, Rf):
                raise Unsupported("mem::take on non-reference")
            old = ip.deref(r)
            ip.write(r.place, self.default_like(old))
            return old
        if key in ("mem::replace",):
            r, nv = A()
            old = ip.deref(r)
            ip.write(r.place, ip.deref(nv))
            return old
        if key in ("mem::swap",):
            r1, r2 = A()
            v1, v2 = ip.deref(r1), ip.deref(r2)
            ip.write(r1.place, v2)
            ip.write(r2.place, v1)
            return UNIT
        if key in ("mem::drop", "drop"):
            A()
            return UNIT
        if key in ("cmp::max", "cmp::min", "max", "min") and len(args) == 2:
            x, y = [ip.deref(v) for v in A()]
            c = self.int_cmp(">=", x, y)
            return ite(c, x, y) if last == "max" else ite(c, y, x)
        if t in V.INT_RANGES and last in ("from", "try_from"):
            x = ip.deref(A()[0])
            return self.cast(x, t)
        if key in ("f64::from",):
            return self.to_f(ip.deref(A()[0]))
        if last in ("from", "into") and t in ip.froms:
            return ip.convert_into(A()[0], t)
        raise Unsupported("call of %s" % "::".join(names))

    def default_like(self, v):
        if isinstance(v, Vc):
            return Vc([], None, v.kind)
        if isinstance(v, Mp):
            return Mp([], v.kind)
        if isinstance(v, HS):
            return HS([])
        if isinstance(v, S):
            return S("")
        if isinstance(v, I):
            return I(0, v.ty)
        if isinstance(v, En) and v.name == "Option":
            return none()
        if isinstance(v, bool) or is_sym(v):
            return False
        raise Unsupported("default_like %r" % (type(v),))
