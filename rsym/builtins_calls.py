"""Builtin paths (constructors, free functions, rewritten macros) for rsym."""
import z3

import values as V
from values import (I, S, F, St, En, Tu, Vc, Mp, HS, Seq, Rf, Clo, FnV, Opaque, UNIT, Unsupported,
                    BoundExceeded, band, bor, bnot, ite, veq, zbool, is_sym, none, some, opt, ok, err,
                    ordering, simp_bool)
from builtins_rs import zi


OPAQUE_BASE = 10**12


class CallsMixin:
    _fmt_fns = {}

    def is_alternatives(self, s):
        try:
            s.leaves()
            return True
        except Unsupported:
            return False

    def default_of(self, t):
        """Default::default() for a simple type (name, args)"""
        if t is None:
            raise Unsupported("Default::default() without a type hint")
        n = t[0]
        if n in V.INT_RANGES:
            return I(0, n)
        if n in ("f64", "f32"):
            return F(0.0)
        if n == "bool":
            return False
        if n in ("String", "str"):
            return S("")
        if n in ("Vec", "VecDeque", "BinaryHeap"):
            return Vc([], None, n)
        if n in ("HashMap", "BTreeMap"):
            return Mp([], n)
        if n in ("HashSet", "BTreeSet"):
            return HS([])
        if n == "Option":
            return none()
        if n == "tuple":
            return Tu([self.default_of(x) for x in t[1]])
        ms = self.ip.methods.get(n, {})
        if "default" in ms:
            return self.ip.call_item(ms["default"], [], n)
        if n in self.ip.structs:
            kind, fl = self.ip.structs[n]
            from interp import ty_simple
            return St(n, {f: self.default_of(ty_simple(ty)) for f, ty in fl})
        raise Unsupported("Default for %s" % n)

    def evargs(self, args, env, hints=None):
        if env is None:
            return list(args)
        sc, cx = env
        out = []
        for i, a in enumerate(args):
            out.append(self.ip.ev(a, sc, cx, hints[i] if hints and i < len(hints) else None))
        return out

    def fmt(self, args):
        """format!-family: concatenate pieces; {} placeholders filled left to right"""
        if not args:
            return S("")
        f = self.ip.deref(args[0])
        rest = [self.ip.deref(a) for a in args[1:]]
        if not isinstance(f, S) or not f.conc():
            raise Unsupported("format! with non-literal format string")
        s = f.v
        pieces = []
        i = 0
        k = 0
        buf = ""
        while i < len(s):
            c = s[i]
            if c == "{":
                if i + 1 < len(s) and s[i + 1] == "{":
                    buf += "{"
                    i += 2
                    continue
                j = s.index("}", i)
                spec = s[i + 1:j]
                if buf:
                    pieces.append(S(buf))
                    buf = ""
                name = spec.split(":")[0]
                if name == "" or name.isdigit():
                    idx = int(name) if name.isdigit() else k
                    if name == "":
                        k += 1
                    if idx >= len(rest):
                        raise Unsupported("format! argument missing")
                    pieces.append(self.to_str(rest[idx], debug="?" in spec))
                else:
                    # inline named argument captured from scope is not supported here
                    raise Unsupported("format! with inline named argument {%s}" % name)
                i = j + 1
                continue
            if c == "}":
                buf += "}"
                i += 2 if i + 1 < len(s) and s[i + 1] == "}" else 1
                continue
            buf += c
            i += 1
        if buf:
            pieces.append(S(buf))
        return self.concat(pieces)

    def concat(self, pieces):
        if all(p.conc() for p in pieces):
            return S("".join(p.v for p in pieces))
        if any(not p.conc() and not self.is_alternatives(p) for p in pieces):
            # a piece is opaque (formatted free integer): the result is an uninterpreted function of the
            # opaque pieces, one function symbol per template; equal inputs give equal strings (congruence),
            # different templates/inputs are NOT forced to differ (over-approximation; counterexamples are replayed)
            tmpl = tuple(p.v if p.conc() else None for p in pieces)
            fn = self._fmt_fns.setdefault(tmpl, z3.Function("fmt!%d" % len(self._fmt_fns), *([z3.IntSort()] * (sum(1 for x in tmpl if x is None) + 1))))
            return S(fn(*[p.z() for p in pieces if not p.conc()]))
        # cross product over the alternatives of the symbolic pieces
        acc = [(True, "")]
        for p in pieces:
            nxt = []
            for c1, a in acc:
                for c2, b in p.leaves():
                    c = band(c1, c2)
                    if c is not False:
                        nxt.append((c, a + b))
            if len(nxt) > 512:
                raise Unsupported("string concatenation with too many alternatives")
            acc = nxt
        res = None
        for c, txt in reversed(acc):
            res = S(txt) if res is None else ite(c, S(txt), res)
        return res

    def int_to_str(self, e, depth=0):
        if z3.is_int_value(e):
            return S(str(e.as_long()))
        if z3.is_app_of(e, z3.Z3_OP_ITE) and depth < 16:
            return ite(e.arg(0), self.int_to_str(e.arg(1), depth + 1), self.int_to_str(e.arg(2), depth + 1))
        # free integer: an *opaque* string id, injective in the integer and disjoint from all interned
        # ids (equality of two such strings <=> equality of the integers); its text cannot be inspected
        return S(z3.If(e >= 0, OPAQUE_BASE + 2 * e, OPAQUE_BASE + 1 - 2 * e))

    def to_str(self, v, debug=False):
        v = self.ip.deref(v)
        if isinstance(v, S):
            if debug:
                return self.concat([S('"'), v, S('"')])
            return v
        if isinstance(v, I):
            if v.conc():
                return S(str(v.v))
            return self.int_to_str(v.z())
        if isinstance(v, bool):
            return S("true" if v else "false")
        if is_sym(v) and z3.is_bool(v):
            return ite(v, S("true"), S("false"))
        if isinstance(v, F) and v.conc():
            r = repr(v.v)
            if r.endswith(".0") and not debug:
                r = r[:-2]
            return S(r)
        if isinstance(v, (St, En)) and debug:
            return S("<%s:?>" % v.name)      # Debug renderings only appear in messages; never compared
        if isinstance(v, (St, En)):
            ms = self.ip.methods.get(v.name, {})
            if "to_string" in ms:
                return self.ip.call_item(ms["to_string"], [v], v.name)
            if isinstance(v, St) and v.name in ("FactHandle",) and not debug:
                return self.concat([S("FactHandle("), self.to_str(v.f["0"]), S(")")])
            # opaque rendering: text that depends only on the value identity is not modelled
            return S("<%s>" % v.name)
        if isinstance(v, (Vc, Mp, HS, Tu)):
            return S("<seq>")
        raise Unsupported("to_string of %r" % (type(v),))

    def call_path(self, names, args, env, hint):
        ip = self.ip
        last = names[-1]
        t = names[-2] if len(names) >= 2 else None
        key = "%s::%s" % (t, last) if t else last

        # rewritten macros -------------------------------------------------
        if last.startswith("__mac_"):
            m = last[6:]
            if m == "vec":
                h = hint[1][0] if hint and hint[1] else None
                return Vc([ip.deref(x) if not isinstance(x, Rf) else x for x in self.evargs(args, env, [h] * len(args))])
            if m == "vec_repeat":
                a = self.evargs(args, env)
                n = ip.deref(a[1])
                if not n.conc():
                    raise Unsupported("vec![x; n] with symbolic n")
                return Vc([ip.deref(a[0])] * n.v)
            if m == "format":
                return self.fmt(self.evargs(args, env))
            if m in ("println", "eprintln", "print", "eprint", "debug", "info", "warn", "error", "trace"):
                return UNIT
            if m in ("write", "writeln"):
                return ok(UNIT)
            if m in ("panic", "unreachable", "todo", "unimplemented"):
                ip.panic(True, "explicit %s!" % m)
                if env is not None:
                    ip.do_return(env[1], None)
                return None
            if m in ("assert", "debug_assert"):
                a = self.evargs(args[:1], env)
                ip.panic(bnot(ip.deref(a[0])), "assertion failed")
                return UNIT
            if m in ("assert_eq", "assert_ne", "debug_assert_eq"):
                a = self.evargs(args[:2], env)
                x = ip.deref(a[0])
                y = ip.deref(a[1])
                if isinstance(y, I) and y.ty is None and isinstance(x, I):
                    y = I(y.v, x.ty)
                e = ip.eq(x, y)
                ip.panic(e if m == "assert_ne" else bnot(e), "%s failed" % m)
                return UNIT
            raise Unsupported("macro %s" % m)

        a = None

        def A(hints=None):
            nonlocal a
            if a is None:
                a = self.evargs(args, env, hints)
            return a

        if last == "Some" and (t in (None, "Option")):
            h = [hint[1][0]] if hint and hint[0] == "Option" and hint[1] else None
            return some(A(h)[0])
        if last == "Ok" and t in (None, "Result"):
            h = [hint[1][0]] if hint and hint[0] == "Result" and hint[1] else None
            return ok(A(h)[0])
        if last == "Err" and t in (None, "Result"):
            return err(A()[0])
        if key in ("Vec::new", "Vec::with_capacity", "VecDeque::new", "VecDeque::with_capacity", "BinaryHeap::new",
                   "BinaryHeap::with_capacity"):
            return Vc([], None, t)
        if key in ("HashMap::new", "HashMap::with_capacity", "BTreeMap::new"):
            return Mp([], t)
        if key in ("HashSet::new", "HashSet::with_capacity", "BTreeSet::new"):
            return HS([])
        if key == "String::new":
            return S("")
        if key in ("String::from", "str::to_string"):
            return ip.deref(A()[0])
        if key in ("Box::new", "Arc::new", "Rc::new", "RwLock::new", "Mutex::new", "RefCell::new", "Cell::new",
                   "Reverse", "cmp::Reverse", "AtomicU64::new", "AtomicUsize::new", "AtomicBool::new", "AtomicI64::new"):
            v = A([hint])[0]
            if last == "Reverse":
                return St("Reverse", {"0": ip.deref(v)})
            if isinstance(v, Clo):
                return v
            return ip.deref(v)
        if key in ("Arc::clone", "Rc::clone"):
            return ip.deref(A()[0])
        if key in ("Default::default",) or (last == "default" and t is not None):
            if t in ("Default", None):
                return self.default_of(hint)
            return self.default_of((t, []))
        if key in ("Duration::from_millis", "Duration::from_secs", "Duration::from_nanos", "Duration::from_micros",
                   "Duration::from_secs_f64"):
            x = ip.deref(A()[0])
            if last == "from_millis":
                return St("Duration", {"ms": I(x.v, "u128")})
            if last == "from_secs":
                return St("Duration", {"ms": self.binop("Mul", I(x.v, "u128"), I(1000, "u128"))})
            raise Unsupported("sub-millisecond Duration constructor %s" % last)
        if key == "Instant::now":
            ip.clock += 1
            return St("Instant", {"t": I(ip.clock, "u128")})
        if key == "SystemTime::now":
            return ip.wall_clock()
        if key == "Utc::now":
            w = ip.wall_clock()
            return St("DateTime", {"t": I(w.f["ms"].v, "i64")})
        if key in ("mem::take", "std::mem::take"):
            r = A()[0]
            if not isinstance(r, Rf):
                raise Unsupported("mem::take on non-reference")
            old = ip.deref(r)
            ip.write(r.place, self.default_like(old))
            return old
        if key in ("mem::replace",):
            r, nv = A()
            old = ip.deref(r)
            ip.write(r.place, ip.deref(nv))
            return old
        if key in ("mem::swap",):
            r1, r2 = A()
            v1, v2 = ip.deref(r1), ip.deref(r2)
            ip.write(r1.place, v2)
            ip.write(r2.place, v1)
            return UNIT
        if key in ("mem::drop", "drop"):
            A()
            return UNIT
        if key in ("cmp::max", "cmp::min", "max", "min") and len(args) == 2:
            x, y = [ip.deref(v) for v in A()]
            c = self.int_cmp(">=", x, y)
            return ite(c, x, y) if last == "max" else ite(c, y, x)
        if t in V.INT_RANGES and last in ("from", "try_from"):
            x = ip.deref(A()[0])
            return self.cast(x, t)
        if key in ("f64::from",):
            return self.to_f(ip.deref(A()[0]))
        if last in ("from", "into") and t in ip.froms:
            return ip.convert_into(A()[0], t)
        raise Unsupported("call of %s" % "::".join(names))

    def default_like(self, v):
        if isinstance(v, Vc):
            return Vc([], None, v.kind)
        if isinstance(v, Mp):
            return Mp([], v.kind)
        if isinstance(v, HS):
            return HS([])
        if isinstance(v, S):
            return S("")
        if isinstance(v, I):
            return I(0, v.ty)
        if isinstance(v, En) and v.name == "Option":
            return none()
        if isinstance(v, bool) or is_sym(v):
            return False
        raise Unsupported("default_like %r" % (type(v),))
