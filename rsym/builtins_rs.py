"""Library model for rsym: the std types and methods the checked units use.

Every model is functional over the bounded value shapes of values.py and is part of
the trusted base (validated by running the repo's own unit tests through the
interpreter, bin/rsym_selftest). Anything not modelled raises Unsupported, which the
runner reports as inconclusive — never as success.
"""
import z3

import values as V
from values import (I, S, F, St, En, Tu, Vc, Mp, HS, Seq, Rf, Clo, FnV, Opaque, UNIT, Unsupported,
                    BoundExceeded, band, bor, bnot, ite, veq, zbool, is_sym, none, some, opt, ok, err,
                    ordering, simp_bool)


def zi(x):
    return x.z() if isinstance(x, I) else (z3.IntVal(x) if isinstance(x, int) else x)


def int_to_fp(e, depth=0):
    """Int term -> Float64 term; ite trees over numerals become ite trees over FP constants
    (int->real->float conversion of a free integer is very expensive for the solver)"""
    if z3.is_int_value(e):
        return z3.FPVal(float(e.as_long()), V.FP)
    if z3.is_app_of(e, z3.Z3_OP_ITE) and depth < 12:
        return z3.If(e.arg(0), int_to_fp(e.arg(1), depth + 1), int_to_fp(e.arg(2), depth + 1))
    return z3.fpToFP(V.RM, z3.ToReal(e), V.FP)


class EntryV:
    __slots__ = ("place", "key")

    def __init__(self, place, key):
        self.place = place
        self.key = key


class BuiltinsBase:
    def __init__(self, ip):
        self.ip = ip

    # ------------------------------------------------------------------ integers
    def int_ty(self, a, b):
        return a.ty or b.ty

    def check_range(self, v, ty, what):
        if ty is None or ty not in V.INT_RANGES:
            return
        lo, hi = V.INT_RANGES[ty]
        if isinstance(v, int):
            if v < lo or v > hi:
                self.ip.panic(True, "arithmetic overflow (%s)" % what)
            return
        self.ip.panic(bor(v < lo, v > hi), "arithmetic overflow (%s)" % what)

    def int_cmp(self, op, a, b):
        if isinstance(a, F) or isinstance(b, F):
            return self.float_cmp(op, a, b)
        if isinstance(a, S):
            o = self.ip.cmp(a, b)
            return self.ord_test(op, o)
        if not isinstance(a, I) or not isinstance(b, I):
            o = self.ip.cmp(a, b)
            return self.ord_test(op, o)
        if a.conc() and b.conc():
            return {"<": a.v < b.v, "<=": a.v <= b.v, ">": a.v > b.v, ">=": a.v >= b.v}[op]
        x, y = a.z(), b.z()
        return {"<": x < y, "<=": x <= y, ">": x > y, ">=": x >= y}[op]

    def ord_test(self, op, o):
        t = o.tag
        if isinstance(t, int):
            return {"<": t == 0, "<=": t <= 1, ">": t == 2, ">=": t >= 1}[op]
        return {"<": t == 0, "<=": t <= 1, ">": t == 2, ">=": t >= 1}[op]

    def float_cmp(self, op, a, b):
        a = self.to_f(a)
        b = self.to_f(b)
        if a.conc() and b.conc():
            return {"<": a.v < b.v, "<=": a.v <= b.v, ">": a.v > b.v, ">=": a.v >= b.v}[op]
        x, y = a.z(), b.z()
        return {"<": z3.fpLT(x, y), "<=": z3.fpLEQ(x, y), ">": z3.fpGT(x, y), ">=": z3.fpGEQ(x, y)}[op]

    def to_f(self, a):
        if isinstance(a, F):
            return a
        if isinstance(a, I):
            if a.conc():
                return F(float(a.v))
            if a.ub is not None and a.ub <= 64:
                e = z3.FPVal(float(a.ub), V.FP)
                for k in range(a.ub - 1, -1, -1):
                    e = z3.If(a.z() == k, z3.FPVal(float(k), V.FP), e)
                return F(e)
            return F(int_to_fp(a.z()))
        raise Unsupported("to_f %r" % (a,))

    def binop(self, op, a, b):
        if a is None or b is None:
            return None
        if op in ("Lt", "Le", "Gt", "Ge"):
            return self.int_cmp({"Lt": "<", "Le": "<=", "Gt": ">", "Ge": ">="}[op], a, b)
        if isinstance(a, F) or isinstance(b, F):
            a, b = self.to_f(a), self.to_f(b)
            if a.conc() and b.conc():
                try:
                    return F({"Add": a.v + b.v, "Sub": a.v - b.v, "Mul": a.v * b.v,
                              "Div": (a.v / b.v) if b.v != 0 else float("inf") if a.v > 0 else float("-inf") if a.v < 0 else float("nan")}[op])
                except KeyError:
                    raise Unsupported("float op %s" % op)
            x, y = a.z(), b.z()
            if op == "Add":
                return F(z3.fpAdd(V.RM, x, y))
            if op == "Sub":
                return F(z3.fpSub(V.RM, x, y))
            if op == "Mul":
                return F(z3.fpMul(V.RM, x, y))
            if op == "Div":
                return F(z3.fpDiv(V.RM, x, y))
            if op == "Rem":
                return F(z3.fpRem(x, y))
            raise Unsupported("float op %s" % op)
        if isinstance(a, S) and op == "Add":
            return self.concat([a, b])
        if isinstance(a, bool) or (is_sym(a) and z3.is_bool(a)):
            if op == "BitAnd":
                return band(a, b)
            if op == "BitOr":
                return bor(a, b)
            if op == "BitXor":
                return zbool(a) != zbool(b)
            raise Unsupported("bool op %s" % op)
        if not isinstance(a, I) or not isinstance(b, I):
            raise Unsupported("binop %s on %r, %r" % (op, type(a), type(b)))
        ty = self.int_ty(a, b)
        if op in ("Div", "Rem"):
            if b.conc():
                if b.v == 0:
                    self.ip.panic(True, "division by zero")
                    return I(0, ty)
            else:
                self.ip.panic(b.z() == 0, "division by zero")
            if a.conc() and b.conc():
                q = abs(a.v) // abs(b.v)
                if (a.v < 0) != (b.v < 0):
                    q = -q
                return I(q if op == "Div" else a.v - q * b.v, ty)
            x, y = a.z(), b.z()
            unsigned = ty is not None and ty.startswith("u")
            if unsigned:
                return I(x / y if op == "Div" else x % y, ty)
            # truncating division for signed
            q = z3.If(x >= 0, z3.If(y > 0, x / y, -(x / (-y))), z3.If(y > 0, -((-x) / y), (-x) / (-y)))
            return I(q if op == "Div" else x - q * y, ty)
        if a.conc() and b.conc():
            r = {"Add": a.v + b.v, "Sub": a.v - b.v, "Mul": a.v * b.v}.get(op)
            if r is None:
                if op == "BitAnd":
                    r = a.v & b.v
                elif op == "BitOr":
                    r = a.v | b.v
                elif op == "BitXor":
                    r = a.v ^ b.v
                elif op == "Shl":
                    r = a.v << b.v
                elif op == "Shr":
                    r = a.v >> b.v
                else:
                    raise Unsupported("int op %s" % op)
            self.check_range(r, ty, op)
            return I(r, ty)
        x, y = a.z(), b.z()
        if op == "Add":
            r = x + y
        elif op == "Sub":
            r = x - y
        elif op == "Mul":
            r = x * y
        else:
            raise Unsupported("symbolic int op %s" % op)
        self.check_range(r, ty, op)
        return I(r, ty)

    def cast(self, v, ty):
        if ty in ("opaque", None) or isinstance(v, (St, Opaque, Clo, FnV)) and ty not in V.INT_RANGES:
            return v        # casts to trait objects / pointers do not change the value
        if isinstance(v, I):
            if ty in ("f64", "f32"):
                return self.to_f(v)
            if v.ub is not None and ty in V.INT_RANGES:
                return I(v.v, ty, v.ub)
            if ty in V.INT_RANGES:
                lo, hi = V.INT_RANGES[ty]
                if v.conc():
                    if lo <= v.v <= hi:
                        return I(v.v, ty)
                    return I((v.v - lo) % (hi - lo + 1) + lo, ty)
                if v.ty in V.INT_RANGES:
                    slo, shi = V.INT_RANGES[v.ty]
                    if slo >= lo and shi <= hi:
                        return I(v.v, ty)
                # wrapping cast
                m = hi - lo + 1
                return I((v.z() - lo) % m + lo, ty)
            raise Unsupported("cast int -> %s" % ty)
        if isinstance(v, F):
            if ty in ("f64", "f32"):
                return v
            if ty in V.INT_RANGES and v.conc():
                lo, hi = V.INT_RANGES[ty]
                if v.v != v.v:
                    return I(0, ty)
                return I(max(lo, min(hi, int(v.v))), ty)
            if ty in V.INT_RANGES:
                lo, hi = V.INT_RANGES[ty]
                x = v.z()
                bits = 128
                bv = z3.fpToSBV(z3.RTZ(), x, z3.BitVecSort(bits))
                iv = z3.BV2Int(bv, is_signed=True)
                sat = z3.If(z3.fpIsNaN(x), 0, z3.If(z3.fpGEQ(x, z3.FPVal(float(hi), V.FP)), hi, z3.If(z3.fpLEQ(x, z3.FPVal(float(lo), V.FP)), lo, iv)))
                return I(sat, ty)
            raise Unsupported("cast float -> %s (symbolic)" % ty)
        if isinstance(v, bool) or is_sym(v):
            if ty in V.INT_RANGES:
                if isinstance(v, bool):
                    return I(int(v), ty)
                return I(z3.If(v, 1, 0), ty)
        if isinstance(v, En) and ty in V.INT_RANGES:
            return I(v.tag, ty)
        if isinstance(v, S) and ty in V.INT_RANGES and v.conc() and len(v.v) == 1:
            return I(ord(v.v), ty)
        raise Unsupported("cast %r -> %s" % (type(v), ty))

    # ------------------------------------------------------------------ Vec
    def vec_len(self, v):
        return I(v.n, "usize")

    def vec_in(self, v, i):
        """slot i is inside the vector (bool term)"""
        if isinstance(v.n, int):
            return i < v.n
        return v.n > i

    def vec_bounds(self, v, idx):
        if isinstance(v.n, int) and idx.conc():
            if not (0 <= idx.v < v.n):
                self.ip.panic(True, "index out of bounds")
            return
        self.ip.panic(bor(zi(idx) < 0, zi(idx) >= zi(I(v.n))), "index out of bounds")

    def vec_get(self, v, idx, check=True):
        if not isinstance(v, Vc):
            raise Unsupported("index into %r" % (type(v),))
        if check:
            self.vec_bounds(v, idx)
        if idx.conc():
            if 0 <= idx.v < len(v.items):
                return v.items[idx.v]
            return self.junk_like(v)
        res = None
        for j in range(len(v.items) - 1, -1, -1):
            if v.items[j] is None:
                continue
            res = v.items[j] if res is None else ite(idx.z() == j, v.items[j], res)
        if res is None:
            return self.junk_like(v)
        return res

    def junk_like(self, v):
        for x in v.items:
            if x is not None:
                return x
        return None

    def vec_push(self, v, x):
        if isinstance(v.n, int):
            items = list(v.items[: v.n]) + [x]
            return Vc(items, v.n + 1, v.kind)
        cap = max(len(v.items), 0)
        if cap < self.ip.cap:
            items = list(v.items) + [None]
        else:
            items = list(v.items)
            self.ip.bound_hit(zi(I(v.n)) >= len(items), "Vec capacity %d" % len(items))
        out = []
        for j in range(len(items)):
            cur = items[j]
            c = v.n == j
            out.append(x if cur is None else ite(c, x, cur))
        return Vc(out, v.n + 1, v.kind)

    def vec_seq(self, v):
        """(present, item) per slot"""
        out = []
        for j, x in enumerate(v.items):
            p = self.vec_in(v, j)
            if p is False or x is None:
                continue
            out.append((p, x))
        return out

    def vec_from_seq(self, items, kind="Vec"):
        """compact an ordered list of (present, value) into a Vec"""
        if all(p is True for p, _ in items):
            return Vc([x for _, x in items], None, kind)
        items = [(p, x) for p, x in items if p is not False]
        n = len(items)
        # position of item i = number of present items before it
        pos = []
        cnt = z3.IntVal(0)
        for p, x in items:
            pos.append(cnt)
            cnt = cnt + z3.If(zbool(p), 1, 0)
        slots = []
        for j in range(n):
            res = None
            for i in range(n - 1, j - 1, -1):
                p, x = items[i]
                c = band(p, pos[i] == j)
                res = x if res is None else ite(c, x, res)
            slots.append(res)
        return Vc(slots, z3.simplify(cnt), kind)

    def vec_remove_at(self, v, idx):
        """remove element idx (assumed in range) shifting the tail down"""
        if isinstance(v.n, int) and idx.conc():
            items = list(v.items[: v.n])
            if not (0 <= idx.v < len(items)):
                return v, self.junk_like(v)      # out of range: the caller has already recorded the panic obligation
            x = items.pop(idx.v)
            return Vc(items, v.n - 1, v.kind), x
        x = self.vec_get(v, idx, check=False)
        items = []
        m = len(v.items)
        for j in range(m):
            nxt = v.items[j + 1] if j + 1 < m else v.items[j]
            cur = v.items[j]
            if cur is None:
                items.append(None)
                continue
            items.append(ite(zi(idx) <= j, nxt if nxt is not None else cur, cur))
        n = v.n - 1 if not isinstance(v.n, int) else v.n - 1
        return Vc(items, n, v.kind), x

    def slice_range(self, v, r):
        lo = r.f["start"] or I(0)
        hi = r.f["end"]
        if hi is None:
            hi = I(len(v.v.encode())) if isinstance(v, S) and v.conc() else (I(v.n) if isinstance(v, Vc) else None)
            if hi is None:
                raise Unsupported("open slice of symbolic string")
        elif r.f["closed"]:
            hi = self.binop("Add", hi, I(1))
        if isinstance(v, S):
            if v.conc() and lo.conc() and hi.conc():
                b = v.v.encode()
                if hi.v > len(b) or lo.v > hi.v:
                    self.ip.panic(True, "str slice out of bounds")
                    return S("")
                try:
                    return S(b[lo.v:hi.v].decode())
                except UnicodeDecodeError:
                    self.ip.panic(True, "str slice not on a char boundary")
                    return S("")
            if self.ip.dead() or not self.ip.feasible():
                return S("")
            raise Unsupported("symbolic str slice %r [%r..%r]" % (v, lo, hi))
        if isinstance(v.n, int) and lo.conc() and hi.conc():
            if not (0 <= lo.v <= hi.v <= v.n):
                self.ip.panic(True, "slice out of bounds")
                return Vc([])
            return Vc(v.items[lo.v:hi.v])
        raise Unsupported("symbolic slice range")

    # ------------------------------------------------------------------ maps / sets
    def map_lookup(self, m, key):
        """(found, value) ; value is an ite chain over the slots"""
        found = False
        val = None
        for (p, k, v) in reversed(m.e):
            if p is False or k is None:
                continue
            c = band(p, self.ip.eq(k, key))
            if c is False:
                continue
            found = bor(found, c)
            val = v if val is None else ite(c, v, val)
        if val is None:
            for (p, k, v) in m.e:
                if v is not None:
                    val = v
                    break
        return found, val

    def map_insert(self, m, key, val):
        """-> (new map, old value option)"""
        found, old = self.map_lookup(m, key)
        e = []
        free_taken = False  # a free slot has already been chosen
        # replace in place where the key exists; otherwise first free slot
        for (p, k, v) in m.e:
            if p is False or k is None:
                use = band(bnot(found), bnot(free_taken))
                e.append([ite(use, True, False) if use is not True else True, key if use is not False else k, val if use is not False else v])
                free_taken = bor(free_taken, use)
                continue
            hit = band(p, self.ip.eq(k, key))
            use_free = band(bnot(p), bnot(found), bnot(free_taken))
            np = bor(p, use_free)
            nk = ite(use_free, key, k)
            nv = ite(bor(hit, use_free), val, v)
            free_taken = bor(free_taken, use_free)
            e.append([np, nk, nv])
        need = band(bnot(found), bnot(free_taken))
        if need is not False:
            if len(e) >= self.ip.cap and need is not True:
                self.ip.bound_hit(need, "map capacity %d" % len(e))
            elif len(e) >= self.ip.cap * 4:
                raise BoundExceeded("map grew beyond %d concrete slots" % len(e))
            if need is True or len(e) < self.ip.cap:
                e.append([need, key, val])
        return Mp(e, m.kind), opt(found, old) if old is not None else none()

    def map_remove(self, m, key):
        found, old = self.map_lookup(m, key)
        e = []
        for (p, k, v) in m.e:
            if p is False or k is None:
                e.append([p, k, v])
                continue
            hit = band(p, self.ip.eq(k, key))
            e.append([band(p, bnot(hit)), k, v])
        # drop slots that are concretely absent to keep shapes small
        e = [x for x in e if x[0] is not False]
        return Mp(e, m.kind), (opt(found, old) if old is not None else none())

    def set_contains(self, s, key):
        found = False
        for (p, k) in s.e:
            if p is False or k is None:
                continue
            found = bor(found, band(p, self.ip.eq(k, key)))
        return found

    def set_insert(self, s, key):
        found = self.set_contains(s, key)
        e = []
        free_taken = False
        for (p, k) in s.e:
            if p is False or k is None:
                continue
            use_free = band(bnot(p), bnot(found), bnot(free_taken))
            e.append([bor(p, use_free), ite(use_free, key, k)])
            free_taken = bor(free_taken, use_free)
        need = band(bnot(found), bnot(free_taken))
        if need is not False:
            if len(e) >= self.ip.cap and need is not True:
                self.ip.bound_hit(need, "set capacity %d" % len(e))
            elif len(e) >= self.ip.cap * 4:
                raise BoundExceeded("set grew beyond %d concrete slots" % len(e))
            if need is True or len(e) < self.ip.cap:
                e.append([need, key])
        return HS(e), bnot(found)

    def set_remove(self, s, key):
        found = self.set_contains(s, key)
        e = []
        for (p, k) in s.e:
            if p is False or k is None:
                continue
            hit = band(p, self.ip.eq(k, key))
            np = band(p, bnot(hit))
            if np is not False:
                e.append([np, k])
        return HS(e), found

    def count(self, presents):
        if all(isinstance(p, bool) for p in presents):
            return I(sum(1 for p in presents if p), "usize")
        return I(z3.Sum([z3.If(zbool(p), 1, 0) for p in presents]), "usize")

    # ------------------------------------------------------------------ iteration
    def into_seq(self, v):
        v0 = v
        place = None
        if isinstance(v, Rf):
            place = v.place
            v = self.ip.deref(v)
        if isinstance(v, Seq):
            return v
        if isinstance(v, Vc):
            if place is not None:
                # `for x in &mut vec` : items are references into the vector
                return Seq([(self.vec_in(v, j), Rf(place.ext(("i", I(j, "usize")))))
                            for j, x in enumerate(v.items) if x is not None and self.vec_in(v, j) is not False])
            return Seq(self.vec_seq(v))
        if isinstance(v, Mp):
            if place is not None:
                return Seq([(p, Tu([k, Rf(place.ext(("k", k)))])) for (p, k, x) in v.e if p is not False and k is not None])
            return Seq([(p, Tu([k, x])) for (p, k, x) in v.e if p is not False and k is not None])
        if isinstance(v, HS):
            return Seq([(p, k) for (p, k) in v.e if p is not False and k is not None])
        if isinstance(v, St) and v.name == "Range":
            lo, hi = v.f["start"], v.f["end"]
            if hi is None:
                raise Unsupported("unbounded range iteration")
            if v.f["closed"]:
                hi = self.binop("Add", hi, I(1))
            if lo.conc() and hi.conc():
                return Seq([(True, I(i, lo.ty or hi.ty)) for i in range(lo.v, hi.v)])
            if lo.conc():
                out = []
                for i in range(lo.v, lo.v + self.ip.loop_bound):
                    out.append((zi(hi) > i, I(i, lo.ty or hi.ty)))
                self.ip.bound_hit(zi(hi) > lo.v + self.ip.loop_bound, "range loop bound")
                return Seq(out)
            raise Unsupported("range with symbolic start")
        if isinstance(v, En) and v.name == "Option":
            pl = v.pl.get(1)
            return Seq([(self.ip.tag_eq(v, 1), pl[0])] if pl else [])
        raise Unsupported("iteration over %r" % (type(v),))

    # ------------------------------------------------------------------ misc
    def const_path(self, names, soft=False):
        key = "::".join(names[-2:])
        consts = {
            "u64::MAX": I(2**64 - 1, "u64"), "u64::MIN": I(0, "u64"), "usize::MAX": I(2**64 - 1, "usize"),
            "i64::MAX": I(2**63 - 1, "i64"), "i64::MIN": I(-2**63, "i64"), "i32::MAX": I(2**31 - 1, "i32"),
            "i32::MIN": I(-2**31, "i32"), "u32::MAX": I(2**32 - 1, "u32"), "u8::MAX": I(255, "u8"),
            "f64::MAX": F(1.7976931348623157e308), "f64::MIN": F(-1.7976931348623157e308),
            "f64::INFINITY": F(float("inf")), "f64::NEG_INFINITY": F(float("-inf")), "f64::NAN": F(float("nan")),
            "f64::EPSILON": F(2.220446049250313e-16),
            "Duration::ZERO": St("Duration", {"ms": I(0, "u128")}),
            "UNIX_EPOCH": St("SystemTime", {"ms": I(0, "u128")}),
            "SystemTime::UNIX_EPOCH": St("SystemTime", {"ms": I(0, "u128")}),
        }
        if key in consts:
            return consts[key]
        if names[-1] in consts:
            return consts[names[-1]]
        if soft:
            return None
        raise Unsupported("constant %s" % "::".join(names))

    def knows_path(self, names):
        return names[-2] in ("Vec", "HashMap", "HashSet", "VecDeque", "BinaryHeap", "String", "Duration", "Instant",
                             "SystemTime", "Box", "Arc", "Rc", "Some", "Default", "Ordering", "RwLock", "Mutex", "cmp", "mem")


from builtins_calls import CallsMixin          # noqa: E402
from builtins_methods import MethodsMixin      # noqa: E402
from builtins_containers import ContainersMixin  # noqa: E402


class Builtins(CallsMixin, MethodsMixin, ContainersMixin, BuiltinsBase):
    pass
