"""Harness support for rsym checks: symbolic inputs, obligations, solver queries."""
import os
import sys
import time

import z3

sys.path.insert(0, os.path.dirname(os.path.abspath(__file__)))
from interp import *  # noqa: F401,F403
from interp import Interp, Scope, Place
import values as V
from values import I, S, F, St, En, Tu, Vc, Mp, HS, Rf, band, bor, bnot, ite, zbool, Unsupported, BoundExceeded

REPO = os.environ.get("VERIF_REPO", "/repo")


class Harness:
    def __init__(self, files, cap=6, loop_bound=8, rec_bound=8, timeout_ms=600000):
        self.ip = Interp(cap=cap, loop_bound=loop_bound, rec_bound=rec_bound)
        self.ip.solver.set("timeout", timeout_ms)
        self.files = files
        for f in files:
            self.ip.load(os.path.join(REPO, "src", f))
        self.sc = Scope(None)
        self.obl = []          # (guard∧¬cond, msg, tag)
        self.tag = ""          # current split tag (e.g. the step): one SMT query per (msg, tag)
        self.inputs = {}       # name -> z3 const (for decoding models)
        self.covers = []       # (cond, msg)
        self.t0 = time.time()
        self.queries = []      # {name, result, seconds}

    # ---------------------------------------------------------------- inputs
    def int(self, name, lo, hi, ty="u64"):
        x = z3.Int(name)
        self.ip.assume(z3.And(x >= lo, x <= hi))
        self.inputs[name] = x
        return I(x, ty)

    def bool(self, name):
        b = z3.Bool(name)
        self.inputs[name] = b
        return b

    def assume(self, c):
        if c is True:
            return
        self.ip.assume(zbool(c))

    # ---------------------------------------------------------------- state
    def let(self, name, v):
        self.sc.vars[name] = v
        return Place(self.sc, name)

    def ref(self, name):
        return Rf(Place(self.sc, name))

    def get(self, name):
        return self.ip.deref(self.sc.vars[name])

    def call(self, path, args):
        return self.ip.call(path, args)

    # ---------------------------------------------------------------- obligations
    def require(self, cond, msg):
        """property obligation under the current guard"""
        bad = band(self.ip.g, bnot(cond))
        if bad is False:
            return
        self.obl.append((bad, msg, str(self.tag)))

    def cover(self, cond, msg):
        self.covers.append((band(self.ip.g, cond), msg))

    def query(self, name, cond):
        t0 = time.time()
        r, m = self.ip.check(cond)
        self.queries.append({"name": name, "result": str(r), "seconds": round(time.time() - t0, 3)})
        return r, m

    def solve_many(self, queries, jobs=None):
        """queries: [(name, cond)] -> {name: (result str, model dict|None)}; each query is
        decided in a forked child (z3 state is inherited), at most `jobs` at a time."""
        import json
        jobs = jobs or int(os.environ.get("VERIF_JOBS", "12"))
        results = {}
        pending = list(queries)
        running = {}   # pid -> (name, read fd, t0)
        trivial = []
        for name, cond in list(pending):
            if cond is False:
                results[name] = ("unsat", None)
                self.queries.append({"name": name, "result": results[name][0], "seconds": 0.0})
                pending.remove((name, cond))
        while pending or running:
            while pending and len(running) < jobs:
                name, cond = pending.pop(0)
                r, w = os.pipe()
                pid = os.fork()
                if pid == 0:
                    os.close(r)
                    try:
                        res, m = self.ip.check(cond)
                        md = None
                        if m is not None:
                            md = {}
                            for k, x in self.inputs.items():
                                v = m.eval(x, model_completion=True)
                                md[k] = z3.is_true(v) if z3.is_bool(v) else (v.as_long() if z3.is_int_value(v) else str(v))
                        out = json.dumps({"r": str(res), "m": md})
                    except Exception as e:  # noqa
                        out = json.dumps({"r": "error: %s" % e, "m": None})
                    os.write(w, out.encode())
                    os.close(w)
                    os._exit(0)
                os.close(w)
                running[pid] = (name, r, time.time())
            pid, _ = os.wait()
            if pid in running:
                name, r, t0 = running.pop(pid)
                data = b""
                while True:
                    chunk = os.read(r, 65536)
                    if not chunk:
                        break
                    data += chunk
                os.close(r)
                try:
                    d = json.loads(data.decode())
                except Exception:
                    d = {"r": "error: no answer (killed / out of memory?)", "m": None}
                results[name] = (d["r"], d["m"])
                self.queries.append({"name": name, "result": d["r"], "seconds": round(time.time() - t0, 3)})
        return results

    def decide(self, panics_are_violations=True):
        """-> dict(status=held|violated|inconclusive, violations=[(msg, model dict)], ...)"""
        ip = self.ip
        out = {"status": "held", "violations": [], "inconclusive": [], "covers": {}}
        groups = {}
        lst = list(self.obl)
        if panics_are_violations:
            lst += [(c, "panic: " + m, "") for c, m in ip.panics]
        for c, msg, tag in lst:
            groups.setdefault(msg + ("  @" + tag if tag else ""), []).append(c)
        qs = []
        for i, (c, msg) in enumerate(ip.bounds):
            qs.append(("bound#%d: %s" % (i, msg), c))
        for msg, cs in groups.items():
            qs.append(("prop: " + msg, bor(*cs)))
        for i, (c, msg) in enumerate(self.covers):
            qs.append(("cover: " + msg, c))
        t0 = time.time()
        res = self.solve_many(qs)
        for name, (r, m) in res.items():
            if name.startswith("bound#"):
                if r != "unsat":
                    out["inconclusive"].append("bound reachable (%s): %s" % (r, name))
            elif name.startswith("prop: "):
                if r == "sat":
                    out["violations"].append((name[6:].split("  @")[0], m))
                elif r != "unsat":
                    out["inconclusive"].append("solver said %s on: %s" % (r, name[6:]))
            else:
                out["covers"][name[7:]] = r
                if r == "sat":
                    out.setdefault("cover_models", {})[name[7:]] = m
                if r != "sat":
                    out["inconclusive"].append("cover witness not reachable: " + name[7:])
        # one counterexample per obligation text (the earliest step that fails)
        firsts = {}
        for name, (r, m) in sorted(res.items()):
            if name.startswith("prop: ") and r == "sat":
                msg = name[6:].split("  @")[0]
                firsts.setdefault(msg, m)
        out["violations"] = list(firsts.items())
        if out["violations"]:
            out["status"] = "violated"
        elif out["inconclusive"]:
            out["status"] = "inconclusive"
        out["obligations"] = len(groups)
        out["bound_obligations"] = len(ip.bounds)
        out["queries"] = list(self.queries)
        out["solver_calls_during_execution"] = ip.nsolver
        out["solver_s_during_execution"] = round(ip.tsolver, 2)
        out["decide_wall_s"] = round(time.time() - t0, 2)
        out["wall_s"] = round(time.time() - self.t0, 2)
        out["calls"] = dict(ip.trace_calls)
        return out
