"""Builtin methods (Option/Result/ints/strings/containers/iterators) for rsym."""
import z3

import values as V
from values import (I, S, F, St, En, Tu, Vc, Mp, HS, Seq, Rf, Clo, FnV, Opaque, UNIT, Unsupported,
                    BoundExceeded, band, bor, bnot, ite, veq, zbool, is_sym, none, some, opt, ok, err,
                    ordering, simp_bool)
from builtins_rs import zi, EntryV

CLONE_LIKE = ("clone", "cloned", "copied", "to_owned", "as_ref", "as_mut", "borrow", "borrow_mut", "as_str", "as_slice",
              "to_vec", "into", "as_deref", "iter_mut_ref", "deref", "as_mut_slice", "into_boxed_slice", "unwrap_or_clone")


class MethodsMixin:
    def method(self, name, rv, place, args, env, hint, tfh):
        ip = self.ip
        sc, cx = env
        a = None
        if rv is None:
            return None

        def A(hints=None):
            nonlocal a
            if a is None:
                a = self.evargs(args, env, hints)
            return a

        def D(i=0):
            return ip.deref(A()[i])

        # lock wrappers are transparent (single threaded model; DESIGN: concurrency not modelled)
        if name in ("read", "write", "lock") and not isinstance(rv, S) and not args:
            return ok(Rf(place)) if place is not None else ok(rv)
        if name in ("unwrap", "expect") and isinstance(rv, En) and rv.name == "Result" and isinstance(rv.tag, int) and rv.tag == 0:
            return rv.pl[0][0]

        if isinstance(rv, En) and rv.name == "Option":
            return self.m_option(name, rv, place, A, D, env, hint)
        if isinstance(rv, En) and rv.name == "Result":
            return self.m_result(name, rv, place, A, D, env, hint)
        if isinstance(rv, En) and rv.name == "Ordering":
            if name == "reverse":
                t = rv.tag
                return ordering(2 - t if isinstance(t, int) else 2 - t)
            if name == "then":
                o = D()
                return ite(ip.tag_eq(rv, 1), o, rv)
            if name == "then_with":
                f = A()[0]
                with ip.under(ip.tag_eq(rv, 1)):
                    o = ip.call_value(f, []) if ip.g is not False else rv
                return ite(ip.tag_eq(rv, 1), o, rv)
            if name in ("is_lt", "is_le", "is_gt", "is_ge", "is_eq", "is_ne"):
                t = rv.tag
                return {"is_lt": t == 0, "is_le": t <= 1, "is_gt": t == 2, "is_ge": t >= 1, "is_eq": t == 1, "is_ne": t != 1}[name]
            if name in CLONE_LIKE:
                return rv
        if name == "into" and hint and hint[0] in ip.froms and not (isinstance(rv, (St, En)) and rv.name == hint[0]):
            return ip.convert_into(rv, hint[0])
        if name in ("cmp", "partial_cmp") and not isinstance(rv, (Seq,)):
            o = ip.cmp(rv, D())
            return o if name == "cmp" else some(o)
        if name in ("eq", "ne") and not isinstance(rv, Seq):
            r = ip.eq(rv, D())
            return r if name == "eq" else bnot(r)
        if name in ("max", "min") and isinstance(rv, (I, F)) and len(args) == 1:
            o = D()
            c = self.int_cmp(">=", rv, o)
            if isinstance(rv, F):
                # f64::max/min ignore NaN operands
                if rv.conc() and o.conc():
                    import math
                    if math.isnan(rv.v):
                        return o
                    if math.isnan(o.v):
                        return rv
                    return F(max(rv.v, o.v) if name == "max" else min(rv.v, o.v))
                x, y = rv.z(), o.z()
                return F(z3.fpMax(x, y) if name == "max" else z3.fpMin(x, y))
            return ite(c, rv, o) if name == "max" else ite(c, o, rv)
        if isinstance(rv, I) and name in ("fetch_add", "fetch_sub", "load", "store", "into_inner", "get", "set") and (place is not None or name in ("load", "into_inner", "get")):
            # atomics / Cell are plain integers in the single-threaded model
            if name in ("load", "into_inner", "get"):
                return rv
            if name in ("store", "set"):
                ip.write(place, D(0))
                return V.UNIT
            ip.write(place, self.binop("Add" if name == "fetch_add" else "Sub", rv, D(0)))
            return rv
        if isinstance(rv, I):
            return self.m_int(name, rv, A, D, hint)
        if isinstance(rv, F):
            return self.m_float(name, rv, A, D, hint)
        if isinstance(rv, bool) or (is_sym(rv) and z3.is_bool(rv)):
            if name in CLONE_LIKE:
                return rv
            if name == "then":
                f = A()[0]
                with ip.under(rv):
                    v = ip.call_value(f, []) if ip.g is not False else None
                return opt(rv, v)
            if name == "then_some":
                return opt(rv, D())
            if name == "to_string":
                return self.to_str(rv)
            if name == "not":
                return bnot(rv)
        if isinstance(rv, S):
            return self.m_str(name, rv, place, A, D, env, hint)
        if isinstance(rv, Vc):
            return self.m_vec(name, rv, place, A, D, env, hint, tfh)
        if isinstance(rv, Mp):
            return self.m_map(name, rv, place, A, D, env, hint)
        if isinstance(rv, HS):
            return self.m_set(name, rv, place, A, D, env, hint)
        if isinstance(rv, Seq):
            return self.m_seq(name, rv, A, D, env, hint, tfh)
        if isinstance(rv, EntryV):
            return self.m_entry(name, rv, A, D, env, hint)
        if isinstance(rv, St) and rv.name == "Range" and name not in ("clone", "contains", "start", "end", "is_empty", "len"):
            return self.m_seq(name, self.into_seq(rv), A, D, env, hint, tfh)
        if isinstance(rv, St) and rv.name == "Range" and name == "contains":
            x = D()
            lo, hi = rv.f["start"], rv.f["end"]
            c = True
            if lo is not None:
                c = band(c, self.int_cmp(">=", x, lo))
            if hi is not None:
                c = band(c, self.int_cmp("<=" if rv.f["closed"] else "<", x, hi))
            return c
        if isinstance(rv, St) and rv.name == "File":
            if name == "write_all":
                # an interrupted write leaves a proper prefix of the text, which is not valid JSON
                # (its length is arbitrary: zero bytes or more)
                cut0 = ip.fresh("cut_at_zero", "bool") if getattr(ip, "fs_crash", None) is not None else True
                self.fs_put(rv.f["path"], D(), partial_content=St("JsonText", {"v": none(), "empty": cut0}))
                return ok(UNIT)
            if name == "read_to_string":
                dst = A()[0]
                found, cur = self.map_lookup(self.fs_get(), rv.f["path"])
                if cur is None:
                    cur = St("JsonText", {"v": none(), "empty": True})
                ip.write(dst.place, cur)
                return ok(I(0, "usize"))
            if name in ("sync_all", "flush", "sync_data"):
                return ok(UNIT)
        if isinstance(rv, St) and rv.name == "JoinHandle":
            if name == "join":
                return ok(rv.f["result"])       # the thread body already ran (at spawn); it cannot panic unnoticed: panics are obligations
            if name == "is_finished":
                return True
        if isinstance(rv, St) and rv.name == "JsonText":
            if name in ("as_bytes", "as_str", "clone", "to_string", "as_ref", "to_owned", "trim", "trim_start", "trim_end"):
                return rv           # JSON text / its truncations start with '{' and end with a non-blank: trimming changes nothing
            if name == "is_empty":
                return rv.f["empty"]
            if name == "len":
                n = ip.fresh("jsonlen")
                ip.assume(z3.And(n >= 0, n < 2**40, (n == 0) == zbool(rv.f["empty"])))
                return I(n, "usize")
        if isinstance(rv, Tu) or isinstance(rv, St) or isinstance(rv, En):
            if name in CLONE_LIKE:
                return rv
            if isinstance(rv, St) and rv.name == "Duration":
                return self.m_duration(name, rv, A, D)
            if isinstance(rv, St) and rv.name in ("Instant", "SystemTime"):
                return self.m_time(name, rv, A, D)
            if isinstance(rv, St) and rv.name == "Reverse" and name in CLONE_LIKE:
                return rv
            if name == "to_string":
                return self.to_str(rv)
            if name == "hash":
                return UNIT
        if isinstance(rv, (Clo, FnV, Opaque)) and name in CLONE_LIKE:
            return rv
        if isinstance(rv, V.Unit) and name in CLONE_LIKE:
            return rv
        raise Unsupported("method %s on %s" % (name, type(rv).__name__ + (":" + rv.name if isinstance(rv, (St, En)) else "")))

    # ------------------------------------------------------------------ Option
    def m_option(self, name, rv, place, A, D, env, hint):
        ip = self.ip
        is_s = ip.tag_eq(rv, 1)
        pl = rv.pl.get(1)
        inner = pl[0] if pl else None
        if name == "is_some":
            return is_s
        if name == "is_none":
            return bnot(is_s)
        if name in ("unwrap", "expect"):
            ip.panic(bnot(is_s), "unwrap on None")
            return inner
        if name == "unwrap_or":
            d = A([hint])[0]
            return ite(is_s, inner, d) if inner is not None else d
        if name == "unwrap_or_default":
            d = self.default_like(ip.deref(inner)) if inner is not None else self.default_of(hint)
            return ite(is_s, inner, d) if inner is not None else d
        if name == "unwrap_or_else":
            with ip.under(bnot(is_s)):
                d = ip.call_value(A()[0], []) if ip.g is not False else None
            return ite(is_s, inner, d) if (inner is not None and d is not None) else (inner if d is None else d)
        if name in ("map", "and_then", "filter", "is_some_and", "inspect", "map_or", "map_or_else"):
            args = A()
            f = args[-1]
            res = None
            if is_s is not False and inner is not None:
                with ip.under(is_s):
                    if ip.g is not False:
                        res = ip.call_value(f, [inner])
            if name == "map":
                return opt(is_s, res) if res is not None else none()
            if name == "and_then":
                if res is None:
                    return none()
                res = ip.deref(res)
                return En("Option", ite(is_s, I(res.tag), I(0)).v, res.pl)
            if name == "filter":
                return opt(band(is_s, res), inner) if res is not None else none()
            if name == "is_some_and":
                return band(is_s, res) if res is not None else False
            if name == "inspect":
                return rv
            if name == "map_or":
                d = args[0]
                return ite(is_s, res, d) if res is not None else d
            if name == "map_or_else":
                with ip.under(bnot(is_s)):
                    d = ip.call_value(args[0], []) if ip.g is not False else None
                return ite(is_s, res, d) if (res is not None and d is not None) else (res if d is None else d)
        if name in ("ok_or", "ok_or_else"):
            if name == "ok_or":
                e = A()[0]
            else:
                with ip.under(bnot(is_s)):
                    e = ip.call_value(A()[0], []) if ip.g is not False else None
            return En("Result", ite(is_s, I(0), I(1)).v, {0: [inner], 1: [e]})
        if name in ("or", "or_else"):
            if name == "or":
                o = D()
            else:
                with ip.under(bnot(is_s)):
                    o = ip.deref(ip.call_value(A()[0], [])) if ip.g is not False else none()
            return ite(is_s, rv, o)
        if name == "take":
            if place is None:
                raise Unsupported("Option::take on temporary")
            ip.write(place, none())
            return rv
        if name == "replace":
            ip.write(place, some(D()))
            return rv
        if name == "insert" or name == "get_or_insert_with" or name == "get_or_insert":
            if name == "insert":
                ip.write(place, some(D()))
            else:
                with ip.under(bnot(is_s)):
                    if ip.g is not False:
                        v = ip.call_value(A()[0], []) if name == "get_or_insert_with" else D()
                        ip.write(place, some(v))
            return Rf(place.ext(("v", 1, 0)))
        if name == "as_mut":
            if place is None:
                return rv
            return opt(is_s, Rf(place.ext(("v", 1, 0)))) if inner is not None else none()
        if name in ("as_deref", "as_ref", "cloned", "copied", "clone", "as_deref_mut"):
            if inner is not None and isinstance(inner, Rf) and name in ("cloned", "copied", "clone"):
                return En("Option", rv.tag, {1: [ip.deref(inner)]})
            return rv
        if name in ("iter", "into_iter"):
            return Seq([(is_s, inner)] if inner is not None else [])
        if name == "flatten":
            if inner is None:
                return none()
            i2 = ip.deref(inner)
            return En("Option", ite(is_s, I(i2.tag), I(0)).v, i2.pl)
        if name == "zip":
            o = D()
            op = o.pl.get(1)
            if inner is None or not op:
                return none()
            return opt(band(is_s, ip.tag_eq(o, 1)), Tu([inner, op[0]]))
        if name == "xor":
            raise Unsupported("Option::xor")
        raise Unsupported("Option::%s" % name)

    def m_result(self, name, rv, place, A, D, env, hint):
        ip = self.ip
        is_ok = ip.tag_eq(rv, 0)
        okv = rv.pl.get(0, [None])[0]
        errv = rv.pl.get(1, [None])[0]
        if name == "is_ok":
            return is_ok
        if name == "is_err":
            return bnot(is_ok)
        if name in ("unwrap", "expect"):
            ip.panic(bnot(is_ok), "unwrap on Err")
            return okv
        if name in ("unwrap_err", "expect_err"):
            ip.panic(is_ok, "unwrap_err on Ok")
            return errv
        if name == "ok":
            return opt(is_ok, okv) if okv is not None else none()
        if name == "err":
            return opt(bnot(is_ok), errv) if errv is not None else none()
        if name == "unwrap_or":
            d = A([hint])[0]
            return ite(is_ok, okv, d) if okv is not None else d
        if name == "unwrap_or_default":
            d = self.default_like(ip.deref(okv)) if okv is not None else self.default_of(hint)
            return ite(is_ok, okv, d) if okv is not None else d
        if name == "unwrap_or_else":
            with ip.under(bnot(is_ok)):
                d = ip.call_value(A()[0], [errv]) if ip.g is not False else None
            return ite(is_ok, okv, d) if (okv is not None and d is not None) else (okv if d is None else d)
        if name == "map_err":
            f = A()[0]
            ne = None
            if is_ok is not True and errv is not None:
                with ip.under(bnot(is_ok)):
                    if ip.g is not False:
                        ne = ip.call_value(f, [errv])
            return En("Result", rv.tag, {0: [okv], 1: [ne]})
        if name in ("map", "and_then"):
            f = A()[0]
            res = None
            if is_ok is not False and okv is not None:
                with ip.under(is_ok):
                    if ip.g is not False:
                        res = ip.call_value(f, [okv])
            if name == "map":
                return En("Result", rv.tag, {0: [res], 1: [errv]})
            if res is None:
                return rv
            res = ip.deref(res)
            e2 = res.pl.get(1, [None])[0]
            me = errv if e2 is None else (e2 if errv is None else ite(is_ok, e2, errv))
            return En("Result", ite(is_ok, I(res.tag), I(1)).v, {0: res.pl.get(0, [None]), 1: [me]})
        if name in ("clone", "as_ref", "as_mut"):
            return rv
        raise Unsupported("Result::%s" % name)

    # ------------------------------------------------------------------ scalars
    def m_int(self, name, rv, A, D, hint):
        ip = self.ip
        if name in CLONE_LIKE:
            if name == "into" and hint and hint[0] in ("f64",):
                return self.to_f(rv)
            if name == "into" and hint and hint[0] in V.INT_RANGES:
                return I(rv.v, hint[0])
            return rv
        if name == "to_string":
            return self.to_str(rv)
        if name == "div_ceil":
            o = D()
            ip.panic(ip.eq(o, I(0)), "attempt to divide by zero")
            if rv.conc() and o.conc():
                return I(-(-rv.v // o.v) if o.v else 0, rv.ty or o.ty)
            a, b = zi(rv), zi(o)
            return I(z3.If(b == 0, 0, (a + b - 1) / b), rv.ty or o.ty)        # unsigned operands (usize / u64)
        if name in ("saturating_sub", "saturating_add", "saturating_mul"):
            o = D()
            ty = rv.ty or o.ty
            lo, hi = V.INT_RANGES.get(ty, (None, None))
            if lo is None:
                raise Unsupported("%s on untyped int" % name)
            if rv.conc() and o.conc():
                r = {"saturating_sub": rv.v - o.v, "saturating_add": rv.v + o.v, "saturating_mul": rv.v * o.v}[name]
                return I(max(lo, min(hi, r)), ty)
            r = {"saturating_sub": rv.z() - zi(o), "saturating_add": rv.z() + zi(o), "saturating_mul": rv.z() * zi(o)}[name]
            return I(z3.If(r < lo, lo, z3.If(r > hi, hi, r)), ty)
        if name in ("checked_sub", "checked_add", "checked_mul", "checked_div"):
            o = D()
            ty = rv.ty or o.ty
            lo, hi = V.INT_RANGES[ty]
            if name == "checked_div":
                z = ip.eq(o, I(0))
                with ip.under(bnot(z)):
                    q = self.binop("Div", rv, o)
                return opt(bnot(z), q)
            r = {"checked_sub": zi(rv) - zi(o), "checked_add": zi(rv) + zi(o), "checked_mul": zi(rv) * zi(o)}[name]
            if rv.conc() and o.conc():
                r = z3.simplify(r).as_long()
                return some(I(r, ty)) if lo <= r <= hi else none()
            return opt(z3.And(r >= lo, r <= hi), I(r, ty))
        if name in ("wrapping_add", "wrapping_sub", "wrapping_mul"):
            o = D()
            ty = rv.ty or o.ty
            lo, hi = V.INT_RANGES[ty]
            m = hi - lo + 1
            r = {"wrapping_add": zi(rv) + zi(o), "wrapping_sub": zi(rv) - zi(o), "wrapping_mul": zi(rv) * zi(o)}[name]
            if rv.conc() and o.conc():
                r = z3.simplify(r).as_long()
                return I((r - lo) % m + lo, ty)
            return I((r - lo) % m + lo, ty)
        if name == "abs":
            if rv.conc():
                return I(abs(rv.v), rv.ty)
            return I(z3.If(rv.z() < 0, -rv.z(), rv.z()), rv.ty)
        if name == "abs_diff":
            o = D()
            uty = {"i64": "u64", "i32": "u32"}.get(rv.ty, rv.ty)
            if rv.conc() and o.conc():
                return I(abs(rv.v - o.v), uty)
            d = zi(rv) - zi(o)
            return I(z3.If(d < 0, -d, d), uty)
        if name == "pow":
            o = D()
            if o.conc() and rv.conc():
                r = rv.v ** o.v
                self.check_range(r, rv.ty, "pow")
                return I(r, rv.ty)
            raise Unsupported("symbolic pow")
        if name in ("is_ascii_digit", "is_ascii_alphabetic", "is_ascii_alphanumeric", "is_ascii_whitespace", "is_ascii_uppercase", "is_ascii_lowercase", "is_ascii_punctuation"):
            import string as _s
            sets = {"is_ascii_digit": _s.digits, "is_ascii_alphabetic": _s.ascii_letters, "is_ascii_alphanumeric": _s.ascii_letters + _s.digits,
                    "is_ascii_whitespace": " \t\n\x0c\r", "is_ascii_uppercase": _s.ascii_uppercase, "is_ascii_lowercase": _s.ascii_lowercase,
                    "is_ascii_punctuation": _s.punctuation}[name]
            if rv.conc():
                return 0 <= rv.v < 128 and chr(rv.v) in sets
            return bor(*[rv.z() == ord(ch) for ch in sets])
        if name == "is_positive":
            return self.int_cmp(">", rv, I(0))
        if name == "is_negative":
            return self.int_cmp("<", rv, I(0))
        if name == "hash":
            return UNIT
        if name in ("min", "max"):
            o = D()
            c = self.int_cmp(">=", rv, o)
            return ite(c, rv, o) if name == "max" else ite(c, o, rv)
        if name == "clamp":
            lo, hi = [ip.deref(x) for x in A()]
            r = ite(self.int_cmp("<", rv, lo), lo, rv)
            return ite(self.int_cmp(">", r, hi), hi, r)
        raise Unsupported("int::%s" % name)

    def m_float(self, name, rv, A, D, hint):
        if name in CLONE_LIKE:
            return rv
        if name == "is_nan":
            return (rv.v != rv.v) if rv.conc() else z3.fpIsNaN(rv.z())
        if name == "is_finite":
            import math
            return math.isfinite(rv.v) if rv.conc() else bnot(bor(z3.fpIsNaN(rv.z()), z3.fpIsInf(rv.z())))
        if name == "is_infinite":
            import math
            return math.isinf(rv.v) if rv.conc() else z3.fpIsInf(rv.z())
        if name == "abs":
            return F(abs(rv.v)) if rv.conc() else F(z3.fpAbs(rv.z()))
        if name == "to_string" and rv.conc():
            return self.to_str(rv)
        if name == "sqrt":
            import math
            return F(math.sqrt(rv.v)) if rv.conc() and rv.v >= 0 else F(z3.fpSqrt(V.RM, rv.z()))
        if name in ("fract", "trunc", "floor", "ceil", "round"):
            import math
            if rv.conc():
                if math.isnan(rv.v) or math.isinf(rv.v):
                    return F(float("nan")) if name == "fract" else rv
                t = {"trunc": math.trunc, "floor": math.floor, "ceil": math.ceil, "round": lambda x: math.floor(abs(x) + 0.5) * (1 if x >= 0 else -1), "fract": math.trunc}[name](rv.v)
                return F(rv.v - t) if name == "fract" else F(float(t))
            rm = {"trunc": z3.RTZ(), "fract": z3.RTZ(), "floor": z3.RTN(), "ceil": z3.RTP(), "round": z3.RNA()}[name]
            t = z3.fpRoundToIntegral(rm, rv.z())
            return F(z3.fpSub(V.RM, rv.z(), t)) if name == "fract" else F(t)
        if name == "total_cmp":
            raise Unsupported("f64::total_cmp")
        raise Unsupported("f64::%s" % name)

    def m_duration(self, name, rv, A, D):
        ms = rv.f["ms"]
        if name == "as_millis":
            return I(ms.v, "u128")
        if name == "as_secs":
            return self.binop("Div", I(ms.v, "u64"), I(1000, "u64"))
        if name == "as_secs_f64":
            return self.binop("Div", self.to_f(ms), F(1000.0))
        if name == "is_zero":
            return self.ip.eq(ms, I(0))
        if name in ("checked_sub", "saturating_sub"):
            o = D().f["ms"]
            d = self.m_int("saturating_sub", I(ms.v, "u64"), lambda h=None: [o], lambda i=0: I(o.v, "u64"), None)
            if name == "saturating_sub":
                return St("Duration", {"ms": I(d.v, "u128")})
            return opt(self.int_cmp(">=", ms, o), St("Duration", {"ms": I(d.v, "u128")}))
        if name in ("mul_f64", "as_nanos", "as_micros", "subsec_nanos", "subsec_millis"):
            raise Unsupported("Duration::%s (model has millisecond resolution)" % name)
        raise Unsupported("Duration::%s" % name)

    def m_time(self, name, rv, A, D):
        ip = self.ip
        if rv.name == "Instant":
            if name == "elapsed":
                ip.clock += 1
                return St("Duration", {"ms": I(0, "u128")})
            if name == "duration_since":
                o = D()
                d = self.m_int("saturating_sub", I(rv.f["t"].v, "u64"), None, lambda i=0: I(o.f["t"].v, "u64"), None)
                return St("Duration", {"ms": I(d.v, "u128")})
            if name == "hash":
                return UNIT
        if rv.name == "SystemTime":
            if name == "duration_since":
                o = D()
                a, b = rv.f["ms"], o.f["ms"]
                le = self.int_cmp(">=", a, b)
                with ip.under(le):
                    d = self.binop("Sub", a, b) if ip.g is not False else I(0, "u128")
                return En("Result", ite(le, I(0), I(1)).v, {0: [St("Duration", {"ms": I(d.v, "u128")})], 1: [St("SystemTimeError", {})]})
            if name == "elapsed":
                now = ip.wall_clock()
                return self.m_time("duration_since", now, None, lambda i=0: rv)
        raise Unsupported("%s::%s" % (rv.name, name))

    # ------------------------------------------------------------------ strings
    def s_apply(self, s, f):
        """apply f (python str -> value) to every alternative of an interned string"""
        if s.conc():
            return f(s.v)
        res = None
        for c, txt in reversed(s.leaves()):
            with self.ip.under(c):
                r = f(txt)
            res = r if res is None else ite(c, r, res)
        return res

    def m_str(self, name, rv, place, A, D, env, hint):
        ip = self.ip
        if name in CLONE_LIKE or name in ("to_string", "to_owned", "as_bytes_str", "trim_matches_none"):
            if name == "into" and hint and hint[0] not in ("String", "str", "Cow"):
                t = hint[0]
                if t in ip.froms:
                    return ip.convert_into(rv, t)
            return rv
        if name == "join" and len(A()) == 1 and isinstance(ip.deref(A()[0]), S):
            return self.path_join(rv, ip.deref(A()[0]))        # Path::join
        if name == "exists":
            return self.map_lookup(self.fs_get(), rv)[0]
        if name in ("to_path_buf", "as_path", "display", "to_string_lossy", "as_os_str"):
            return rv
        if name == "push_str" or name == "push":
            o = D()
            ip.modify(place, lambda old: self.concat([ip.deref(old), o]))
            return UNIT
        if name == "clear":
            ip.write(place, S(""))
            return UNIT
        if name == "hash":
            return UNIT
        if not rv.conc():
            return self.s_apply(rv, lambda txt: self.m_str(name, S(txt), None, A, D, env, hint))
        if name in ("starts_with", "ends_with", "contains", "strip_prefix", "strip_suffix", "find", "rfind", "split", "split_once"):
            o = ip.deref(A()[0])
            if isinstance(o, S) and not o.conc():
                return self.s_apply(o, lambda txt: self.m_str(name, rv, None, (lambda h=None: [S(txt)]), (lambda i=0: S(txt)), env, hint))
        if name == "len":
            return I(len(rv.v.encode()), "usize")
        if name == "is_empty":
            return rv.v == ""
        if name in ("starts_with", "ends_with", "contains"):
            o = D()
            if isinstance(o, (Clo, FnV)):
                raise Unsupported("str::%s with closure" % name)
            return {"starts_with": rv.v.startswith(o.v), "ends_with": rv.v.endswith(o.v), "contains": o.v in rv.v}[name]
        s = rv.v
        if name == "trim":
            return S(s.strip())
        if name == "trim_start":
            return S(s.lstrip())
        if name == "trim_end":
            return S(s.rstrip())
        if name == "to_lowercase":
            return S(s.lower())
        if name == "to_uppercase":
            return S(s.upper())
        if name == "strip_prefix":
            o = D()
            return some(S(s[len(o.v):])) if s.startswith(o.v) else none()
        if name == "strip_suffix":
            o = D()
            return some(S(s[: len(s) - len(o.v)])) if o.v and s.endswith(o.v) or (not o.v) else none()
        if name in ("as_bytes", "bytes", "into_bytes"):
            bs = [I(b, "u8") for b in s.encode()]
            return Vc(bs) if name != "bytes" else Seq([(True, b) for b in bs])
        if name == "chars":
            return Seq([(True, S(c)) for c in s])
        if name == "split":
            o = D()
            return Seq([(True, S(p)) for p in s.split(o.v)])
        if name == "splitn":
            n, o = [ip.deref(x) for x in A()]
            return Seq([(True, S(p)) for p in s.split(o.v, n.v - 1)])
        if name == "split_whitespace":
            return Seq([(True, S(p)) for p in s.split()])
        if name == "lines":
            return Seq([(True, S(p)) for p in s.splitlines()])
        if name == "find":
            o = D()
            if isinstance(o, S):
                i = s.find(o.v)
                return some(I(len(s[:i].encode()), "usize")) if i >= 0 else none()
            if isinstance(o, (Clo, FnV)):
                off = 0
                for ch in s:
                    r = ip.deref(ip.call_value(o, [S(ch)]))
                    if r is True:
                        return some(I(off, "usize"))
                    if r is not False:
                        raise Unsupported("str::find with a symbolic predicate")
                    off += len(ch.encode())
                return none()
        if name == "rfind":
            o = D()
            if isinstance(o, S):
                i = s.rfind(o.v)
                return some(I(len(s[:i].encode()), "usize")) if i >= 0 else none()
        if name == "replace":
            x, y = [ip.deref(v) for v in A()]
            return S(s.replace(x.v, y.v))
        if name == "parse":
            t = hint[0] if hint else None
            if hint and hint[0] == "Result" and hint[1]:
                t = hint[1][0][0] if hint[1][0] else None
            if t in V.INT_RANGES:
                try:
                    v = int(s)
                    lo, hi = V.INT_RANGES[t]
                    if lo <= v <= hi and (s[0].isdigit() or s[0] in "+-") and s.strip() == s and "_" not in s:
                        return ok(I(v, t))
                except ValueError:
                    pass
                return err(St("ParseIntError", {}))
            if t in ("f64", "f32"):
                import re
                if re.match(r"^[+-]?((\d+\.?\d*([eE][+-]?\d+)?)|(\.\d+([eE][+-]?\d+)?)|inf|infinity|nan)$", s, re.I):
                    try:
                        return ok(F(float(s)))
                    except ValueError:
                        pass
                return err(St("ParseFloatError", {}))
            raise Unsupported("str::parse::<%s>" % t)
        if name == "split_once":
            o = D()
            i = s.find(o.v)
            return some(Tu([S(s[:i]), S(s[i + len(o.v):])])) if i >= 0 else none()
        if name == "char_indices":
            out = []
            off = 0
            for c in s:
                out.append((True, Tu([I(off, "usize"), S(c)])))
                off += len(c.encode())
            return Seq(out)
        if name == "is_char_boundary":
            i = D()
            b = s.encode()
            return i.v == len(b) or (i.v < len(b) and (b[i.v] & 0xC0) != 0x80)
        if len(s) == 1:
            if name == "is_alphanumeric":
                return s.isalnum()
            if name == "is_alphabetic":
                return s.isalpha()
            if name in ("is_numeric", "is_ascii_digit"):
                return s.isdigit()
            if name == "is_whitespace":
                return s.isspace()
            if name == "is_uppercase":
                return s.isupper()
        raise Unsupported("str::%s" % name)
