"""C07 — RETE agenda order, no-loop, activation-group exclusivity (engine E3, rsym).

Real code executed symbolically: src/rete/agenda.rs — AdvancedAgenda::{new, add_activation,
get_next_activation, mark_rule_fired, set_focus, reset_fired_flags}, Activation::{new, with_*},
impl Ord/PartialOrd/PartialEq for Activation (used by the priority queue).

Histories: K operations with symbolic arguments from
  add_activation(rule in {A,B,C}, ANY i32 salience, no_loop, lock_on_active, auto_focus,
                 activation_group in {none, g}, agenda_group in {MAIN, X})
  | fire (= get_next_activation, then mark_rule_fired on the result, as the engines do)
  | set_focus(MAIN|X) | reset_fired_flags
"""
import z3

from hlib import *  # noqa: F401,F403

ID = "C07"
FEATURES = []
FILES = ["rete/working_memory.rs", "rete/agenda.rs"]
FUNCTIONS = ["AdvancedAgenda::new", "AdvancedAgenda::add_activation", "AdvancedAgenda::get_next_activation",
             "AdvancedAgenda::mark_rule_fired", "AdvancedAgenda::set_focus", "AdvancedAgenda::reset_fired_flags",
             "Activation::new", "Activation::with_no_loop", "Activation::with_lock_on_active", "Activation::with_auto_focus",
             "Activation::with_activation_group", "Activation::with_agenda_group", "Activation::cmp", "Activation::partial_cmp"]
RULES = ["A", "B", "C"]
GROUPS = ["MAIN", "X"]
TIERS = {
    "quick": [{"K": 5}],
    "thorough": [{"K": 6}],
}
ASSUMPTIONS = [
    "Instant::now() is a strictly increasing counter (two activations never share a creation instant)",
    "BinaryHeap is modelled as a priority queue whose pop returns the maximum by the real Ord impl; with distinct creation instants the maximum is unique, so std's unspecified tie order is never exercised",
    "rule names from {A,B,C}, agenda groups {MAIN,X}, activation groups {none,g}; ruleflow groups unused",
    "'pending' is read from the agenda's own heaps before each fire; 'fired since reset' is tracked by the harness from mark_rule_fired calls",
    "termination of the fire_all entry points (IncrementalEngine / TypedReteUlEngine / ReteUlEngine) is NOT covered (closures over TypedFacts; see DESIGN.md)",
]
BOUNDS_NOTE = "bounds: K operations (see runs[].bounds); conflict-resolution strategies other than the default Salience and the fire_all termination sentence are outside the claim"


def pick(h, name, options):
    i = h.int(name, 0, len(options) - 1).v
    s = S(options[-1])
    for j in range(len(options) - 2, -1, -1):
        s = ite(i == j, S(options[j]), s)
    return i, s


def run(K, witness=False):
    h = Harness(FILES, cap=K + 1, loop_bound=K + 3, rec_bound=4)
    ip = h.ip
    h.let("ag", h.call("AdvancedAgenda::new", []))
    ag = h.ref("ag")
    fired_rule = {r: False for r in RULES}
    fired_group = False
    locked = {g: False for g in GROUPS}
    saw_tie = False
    saw_skip_noloop = False
    saw_focus_pop = False
    saw_group_block = False
    fires = z3.IntVal(0)

    def pending():
        """[(present, activation value, group name)] from the implementation's heaps"""
        st = h.get("ag")
        out = []
        for g in GROUPS:
            found, heap = ip.bi.map_lookup(st.f["activations"], S(g))
            if heap is None:
                continue
            for p, a in ip.bi.vec_seq(heap):
                out.append((band(found, p), a, g))
        return out

    def eligible(a):
        nl = band(a.f["no_loop"], bor(*[band(ip.eq(a.f["rule_name"], S(r)), fired_rule[r]) for r in RULES]))
        lk = band(a.f["lock_on_active"], bor(*[band(ip.eq(a.f["agenda_group"], S(g)), locked[g]) for g in GROUPS]))
        agp = band(ip.tag_eq(a.f["activation_group"], 1), fired_group)
        return bnot(bor(nl, lk, agp))

    for step in range(K):
        h.tag = 'step%d' % step
        op = h.int("op%d" % step, 0, 3).v
        ri, rs = pick(h, "rule%d" % step, RULES)
        gi, gs = pick(h, "grp%d" % step, GROUPS)
        sal = h.int("sal%d" % step, -2**31, 2**31 - 1, "i32")
        nl = h.bool("noloop%d" % step)
        lk = h.bool("lock%d" % step)
        af = h.bool("autofocus%d" % step)
        hasg = h.bool("agroup%d" % step)
        with ip.under(op == 0):
            a = ip.call("Activation::new", [rs, sal])
            a = ip.call("Activation::with_no_loop", [a, nl])
            a = ip.call("Activation::with_lock_on_active", [a, lk])
            a = ip.call("Activation::with_auto_focus", [a, af])
            a = ip.call("Activation::with_agenda_group", [a, gs])
            ag_a = ip.call("Activation::with_activation_group", [a, S("g")])
            a = ite(hasg, ag_a, a)
            ip.call("AdvancedAgenda::add_activation", [ag, a])
        with ip.under(op == 1):
            before = pending()
            focus0 = h.get("ag").f["focus"]
            got = ip.deref(ip.call("AdvancedAgenda::get_next_activation", [ag]))
            some_ = ip.tag_eq(got, 1)
            focus1 = h.get("ag").f["focus"]
            r = got.pl[1][0] if got.pl.get(1) else None
            if r is not None:
                with ip.under(some_):
                    # it was pending, in the group that is focused when it is handed out
                    h.require(bor(*[band(p, ip.eq(x.f["created_at"], r.f["created_at"]), ip.eq(x.f["rule_name"], r.f["rule_name"])) for p, x, g in before]),
                              "C07: get_next_activation returned an activation that was not pending")
                    h.require(ip.eq(r.f["agenda_group"], focus1), "C07: an activation outside the focused agenda group fired")
                    h.require(eligible(r), "C07: a no-loop / locked / group-blocked activation fired")
                    h.require(bor(bnot(r.f["no_loop"]), bnot(bor(*[band(ip.eq(r.f["rule_name"], S(x)), fired_rule[x]) for x in RULES]))),
                              "C07: a no-loop rule fired twice between resets")
                    h.require(bor(ip.tag_eq(r.f["activation_group"], 0), bnot(fired_group)),
                              "C07: a second rule of an activation group fired")
                    for p, x, g in before:
                        same_grp = ip.eq(x.f["agenda_group"], r.f["agenda_group"])
                        higher = ip.bi.int_cmp(">", x.f["salience"], r.f["salience"])
                        tie = ip.eq(x.f["salience"], r.f["salience"])
                        earlier = ip.bi.int_cmp("<", x.f["created_at"].f["t"], r.f["created_at"].f["t"])
                        h.require(bnot(band(p, same_grp, eligible(x), higher)),
                                  "C07: an activation fired although an eligible one with higher salience was pending in the focused group")
                        h.require(bnot(band(p, same_grp, eligible(x), tie, earlier)),
                                  "C07: among equal salience a later-created activation fired before an earlier one")
                        saw_tie = bor(saw_tie, band(ip.g, p, same_grp, tie, bnot(ip.eq(x.f["created_at"], r.f["created_at"]))))
                        saw_skip_noloop = bor(saw_skip_noloop, band(ip.g, p, same_grp, bnot(eligible(x)), higher))
            changed = bnot(ip.eq(focus0, focus1))
            for p, x, g in before:
                h.require(bnot(band(changed, p, ip.eq(x.f["agenda_group"], focus0), eligible(x))),
                          "C07: focus left an agenda group that still had an eligible pending activation")
                h.require(bnot(band(bnot(some_), p, ip.eq(x.f["agenda_group"], focus0), eligible(x))),
                          "C07: nothing fired although the focused group had an eligible pending activation")
            saw_focus_pop = bor(saw_focus_pop, band(ip.g, changed, some_))
            if r is not None:
                with ip.under(some_):
                    ip.call("AdvancedAgenda::mark_rule_fired", [ag, r])
                    saw_group_block = bor(saw_group_block, band(ip.g, ip.tag_eq(r.f["activation_group"], 1)))
                    for x in RULES:
                        fired_rule[x] = bor(fired_rule[x], band(ip.g, ip.eq(r.f["rule_name"], S(x))))
                    fired_group = bor(fired_group, band(ip.g, ip.tag_eq(r.f["activation_group"], 1)))
                    for g in GROUPS:
                        locked[g] = bor(locked[g], band(ip.g, r.f["lock_on_active"], ip.eq(r.f["agenda_group"], S(g))))
                    fires = fires + z3.If(zbool(ip.g), 1, 0)
        with ip.under(op == 2):
            ip.call("AdvancedAgenda::set_focus", [ag, gs])
        with ip.under(op == 3):
            ip.call("AdvancedAgenda::reset_fired_flags", [ag])
        rst = op == 3
        for x in RULES:
            fired_rule[x] = band(fired_rule[x], bnot(rst))
        fired_group = band(fired_group, bnot(rst))
        for g in GROUPS:
            locked[g] = band(locked[g], bnot(rst))
    h.cover(saw_tie, "two pending activations of one group had equal salience when one fired")
    h.cover(saw_skip_noloop, "a higher-salience activation was skipped because it was not eligible")
    h.cover(saw_focus_pop, "focus returned to an earlier agenda group and an activation fired there")
    h.cover(fires >= 2, "two activations fired in one history")
    if witness:
        h.require(False, "C07 witness: end of harness reached")
    res = h.decide()
    res["bounds"] = {"operations": K}
    res["harness"] = h
    res["K"] = K
    return res


def decode(res, m):
    out = []
    for s in range(res["K"]):
        op = m["op%d" % s]
        if op == 0:
            out.append({"op": "add_activation", "rule": RULES[m["rule%d" % s]], "salience": m["sal%d" % s], "no_loop": m["noloop%d" % s],
                        "lock_on_active": m["lock%d" % s], "auto_focus": m["autofocus%d" % s], "activation_group": "g" if m["agroup%d" % s] else None,
                        "agenda_group": GROUPS[m["grp%d" % s]]})
        elif op == 1:
            out.append({"op": "fire"})
        elif op == 2:
            out.append({"op": "set_focus", "group": GROUPS[m["grp%d" % s]]})
        else:
            out.append({"op": "reset_fired_flags"})
    return out


def finding_key(msg, trace):
    return msg


def replay_source(trace):
    lines = []
    for o in trace:
        if o["op"] == "add_activation":
            b = 'Activation::new("%s".to_string(), %d).with_no_loop(%s).with_lock_on_active(%s).with_auto_focus(%s).with_agenda_group("%s".to_string())' % (
                o["rule"], o["salience"], str(o["no_loop"]).lower(), str(o["lock_on_active"]).lower(), str(o["auto_focus"]).lower(), o["agenda_group"])
            if o["activation_group"]:
                b += '.with_activation_group("g".to_string())'
            lines.append("{ let a = %s; std::thread::sleep(std::time::Duration::from_millis(2)); pend.push(P { rule: a.rule_name.clone(), sal: a.salience, no_loop: a.no_loop, lock: a.lock_on_active, agroup: a.activation_group.is_some(), grp: a.agenda_group.clone(), at: a.created_at, gone: false }); let fg_before = st.fired_group; ag.add_activation(a); let _ = fg_before; }" % b)
        elif o["op"] == "fire":
            lines.append("fire(&mut ag, &mut pend, &mut st, &mut bad);")
        elif o["op"] == "set_focus":
            lines.append('ag.set_focus("%s".to_string());' % o["group"])
        else:
            lines.append("ag.reset_fired_flags(); st = St::default();")
    return """
use rust_rule_engine::rete::agenda::{Activation, AdvancedAgenda};
use std::collections::BTreeSet;
use std::time::Instant;

struct P { rule: String, sal: i32, no_loop: bool, lock: bool, agroup: bool, grp: String, at: Instant, gone: bool }
#[derive(Default)]
struct St { fired: BTreeSet<String>, fired_group: bool, locked: BTreeSet<String> }
fn eligible(p: &P, st: &St) -> bool { !((p.no_loop && st.fired.contains(&p.rule)) || (p.lock && st.locked.contains(&p.grp)) || (p.agroup && st.fired_group)) }
// the harness cannot see which activations the agenda dropped at insertion or discarded on a skipped pop, so it only
// judges facts that hold for every such history: the fired one was added, is eligible, is in the focused group, and no
// activation that is still certainly pending (added, never returned, eligible at every earlier fire in its group... ) outranks it.
fn fire(ag: &mut AdvancedAgenda, pend: &mut Vec<P>, st: &mut St, bad: &mut Vec<String>) {
    let focus0 = ag.get_focus().to_string();
    match ag.get_next_activation() {
        Some(a) => {
            let focus1 = ag.get_focus().to_string();
            let me = pend.iter().position(|p| !p.gone && p.at == a.created_at && p.rule == a.rule_name);
            if me.is_none() { bad.push("returned activation was not pending".into()); }
            if a.agenda_group != focus1 { bad.push("fired outside the focused group".into()); }
            if a.no_loop && st.fired.contains(&a.rule_name) { bad.push(format!("no-loop rule {} fired twice between resets", a.rule_name)); }
            if a.activation_group.is_some() && st.fired_group { bad.push("second rule of an activation group fired".into()); }
            if let Some(i) = me {
                let mep = P { rule: a.rule_name.clone(), sal: a.salience, no_loop: a.no_loop, lock: a.lock_on_active, agroup: a.activation_group.is_some(), grp: a.agenda_group.clone(), at: a.created_at, gone: false };
                if !eligible(&mep, st) { bad.push("a no-loop / locked / group-blocked activation fired".into()); }
                for (j, x) in pend.iter().enumerate() {
                    if j == i || x.gone || x.grp != a.agenda_group || !x.certain(st) { continue; }
                    if x.sal > a.salience { bad.push(format!("{} (salience {}) fired before eligible pending {} (salience {})", a.rule_name, a.salience, x.rule, x.sal)); }
                    if x.sal == a.salience && x.at < a.created_at { bad.push("later-created activation fired first among equal salience".into()); }
                }
                pend[i].gone = true;
            }
            if focus0 != focus1 { for x in pend.iter() { if !x.gone && x.grp == focus0 && x.certain(st) { bad.push("focus left a group with an eligible pending activation".into()); } } }
            ag.mark_rule_fired(&a);
            st.fired.insert(a.rule_name.clone()); if a.activation_group.is_some() { st.fired_group = true; } if a.lock_on_active { st.locked.insert(a.agenda_group.clone()); }
        }
        None => { for x in pend.iter() { if !x.gone && x.grp == focus0 && x.certain(st) { bad.push("nothing fired although the focused group had an eligible pending activation".into()); } } }
    }
    // anything not eligible now may have been discarded by a skipped pop: no longer certainly pending
    for x in pend.iter_mut() { if !x.gone && !eligible(x, st) { x.gone = true; } }
}
impl P { fn certain(&self, st: &St) -> bool { eligible(self, st) } }
fn main() {
    let mut ag = AdvancedAgenda::new();
    let mut pend: Vec<P> = Vec::new();
    let mut st = St::default();
    let mut bad: Vec<String> = Vec::new();
    %s
    if bad.is_empty() { println!("NOT-REPRODUCED"); } else { println!("REPRODUCED: {:?}", bad); }
}
""" % "\n    ".join(lines)


if __name__ == "__main__":
    import sys
    r = run(int(sys.argv[1]))
    print(r["status"], r["covers"], r["inconclusive"][:5], "wall", r["wall_s"], "decide", r["decide_wall_s"])
    for msg, m in r["violations"]:
        print("VIOLATION", msg, decode(r, m))
