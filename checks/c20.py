"""C20 — restoring a checkpoint reproduces the state at checkpoint time (engine rsym), FILE backend over a modelled
file system (DESIGN.md 4.1).

(a) restore clause: "Restoring a checkpoint reproduces exactly the unexpired keys and values the store held when that
    checkpoint was taken, whatever was put, updated, deleted or checkpointed afterwards, and checkpoints taken at
    different moments stay distinguishable".
(b) crash clause (crash=True): "A crash at any point while a checkpoint is being written never damages an earlier
    checkpoint, and restoring the interrupted one yields its complete state or an error, never a partial state" — the
    crash point is a symbolic index into the file-system mutations of the interrupted checkpoint.

Real code executed symbolically: src/streaming/state.rs — StateStore::{with_config, put, put_with_ttl, update, delete,
get, checkpoint, restore}, StateEntry::{new, is_expired, update}.

Histories: K operations with symbolic arguments over keys {a,b}:
  put(k, v) | put_with_ttl(k, v, ttl) | update(k, v) | delete(k) | checkpoint | restore(j-th checkpoint id)
each preceded by an arbitrary non-negative advance of the wall clock (0 allowed: same millisecond).
"""
import z3

from hlib import *  # noqa: F401,F403

ID = "C20"
FEATURES = ["streaming"]
FILES = ["errors.rs", "types.rs", "streaming/state.rs"]
FUNCTIONS = ["StateStore::with_config", "StateStore::put", "StateStore::put_with_ttl", "StateStore::update", "StateStore::delete",
             "StateStore::get", "StateStore::checkpoint", "StateStore::restore", "StateEntry::new", "StateEntry::is_expired",
             "StateEntry::update"]
KEYS = ["a", "b"]
TIERS = {
    "quick": [{"K": 4}, {"K": 3, "crash": True}],
    "thorough": [{"K": 4}, {"K": 4, "crash": True}],
}
ASSUMPTIONS = [
    "file system modelled as a map path -> content (create_dir_all adds a directory entry, File::create truncates, write_all stores the whole content, exists/open/read_to_string read it back, remove_dir_all removes the directory entry and its state.json, rename atomic)",
    "serde_json::to_string_pretty / from_str modelled as an exact round trip of the snapshot; an empty, truncated or directory entry does not parse (a proper prefix of a pretty-printed JSON object is never valid JSON)",
    "crash = the interrupted checkpoint's file-system mutation number c (symbolic) is cut: a cut write_all leaves an unparseable prefix, any other cut mutation did not happen, later mutations never happen; afterwards a FRESH StateStore is opened on the same directory at least 1 ms later",
    "SystemTime::now() is constant within one operation and advances by an arbitrary amount >= 0 between operations (0 = same millisecond)",
    "checkpoint ids are format!() texts of the millisecond: modelled as opaque strings that are equal exactly when the milliseconds are equal",
    "values are Integer(0..3); keys {a,b}; max_checkpoints larger than the number of checkpoints taken (retention never evicts)",
]
BOUNDS_NOTE = "bounds: K operations (see runs[].bounds), 2 keys, values 0..3, clock advances 0..5 ms; retention eviction, the Redis/Custom backends, auto-checkpointing, torn directory metadata and a restart within the millisecond of an earlier checkpoint are outside the claim"


def pick(h, name, options):
    i = h.int(name, 0, len(options) - 1).v
    s = S(options[-1])
    for j in range(len(options) - 2, -1, -1):
        s = ite(i == j, S(options[j]), s)
    return i, s


def mi(c, a, b):
    if isinstance(a, bool) or (isinstance(a, z3.ExprRef) and z3.is_bool(a)):
        return ite(c, a, b)
    if c is True:
        return a
    if c is False:
        return b
    return z3.If(zbool(c), a, b)


N_FS_STEPS = 3      # create_dir_all, File::create, write_all (retention never evicts in this harness)


def run(K, crash=False, witness=False):
    h = Harness(FILES, cap=2 * K + 6, loop_bound=K + 5, rec_bound=4)
    ip = h.ip
    vi = {n: i for i, (n, _) in enumerate(ip.enums["Value"])}
    bi_ = {n: i for i, (n, _) in enumerate(ip.enums["StateBackend"])}
    backend = En("StateBackend", bi_["File"], {bi_["File"]: {"path": S("/ckpt")}})
    cfg = St("StateConfig", {"backend": backend, "auto_checkpoint": False, "checkpoint_interval": St("Duration", {"ms": I(60000, "u128")}),
                             "max_checkpoints": I(K + 5, "usize"), "enable_ttl": False, "default_ttl": St("Duration", {"ms": I(3600000, "u128")})})
    h.let("st", h.call("StateStore::with_config", [cfg]))
    st = h.ref("st")
    now = z3.IntVal(1000)
    # model: per key present, value, created, has_ttl, ttl
    mdl = {k: {"p": False, "v": z3.IntVal(0), "c": z3.IntVal(0), "ht": False, "t": z3.IntVal(0)} for k in KEYS}
    ckpts = []      # list of dict(taken(bool), id value (S), time, snap {k: (present, value)})
    saw_same_ms = False
    saw_restore_after_change = False

    def live(k, t):
        e = mdl[k]
        return band(e["p"], bnot(band(e["ht"], t > e["c"] + e["t"])))

    for step in range(K):
        h.tag = "step%d" % step
        adv = h.int("advance%d" % step, 0, 5).v
        now = now + adv
        ip.wall_frozen = now
        op = h.int("op%d" % step, 0, 5).v
        ki, ks = pick(h, "key%d" % step, KEYS)
        v = h.int("val%d" % step, 0, 3, "i64").v
        ttl = h.int("ttl%d" % step, 0, 5).v
        which = h.int("which%d" % step, 0, max(K - 1, 0)).v
        val = En("Value", vi["Integer"], {vi["Integer"]: [I(v, "i64")]})
        # admissible restore: refers to a checkpoint taken earlier
        h.assume(z3.Implies(op == 5, zbool(bor(*[band(which == j, c["taken"]) for j, c in enumerate(ckpts)]))))
        with ip.under(op == 0):
            ip.call("StateStore::put", [st, ks, val])
        with ip.under(op == 1):
            ip.call("StateStore::put_with_ttl", [st, ks, val, St("Duration", {"ms": I(ttl, "u128")})])
        with ip.under(op == 2):
            ip.call("StateStore::update", [st, ks, val])
        with ip.under(op == 3):
            ip.call("StateStore::delete", [st, ks])
        cid = None
        with ip.under(op == 4):
            r4 = ip.deref(ip.call("StateStore::checkpoint", [st, S("n")]))
            h.require(ip.tag_eq(r4, 0), "C20: checkpoint failed on the (modelled) file backend")
            cid = ip.deref(r4.pl[0][0]) if r4.pl.get(0) else None
        # restore: pick the id of the chosen earlier checkpoint
        if ckpts:
            rid = ckpts[-1]["id"]
            for j in range(len(ckpts) - 2, -1, -1):
                rid = ite(which == j, ckpts[j]["id"], rid)
            with ip.under(op == 5):
                r5 = ip.deref(ip.call("StateStore::restore", [st, rid]))
                h.require(ip.tag_eq(r5, 0), "C20: restoring an existing checkpoint returned an error")
        # model update ------------------------------------------------------------------------
        snapshot_now = {k: (live(k, now), mdl[k]["v"]) for k in KEYS}
        for k in KEYS:
            sel = ki == KEYS.index(k)
            e = mdl[k]
            putp = band(bor(op == 0, op == 1), sel)
            upd = band(op == 2, sel, live(k, now))
            dele = band(op == 3, sel)
            n = {"p": band(bor(e["p"], putp), bnot(dele)), "v": mi(bor(putp, upd), v, e["v"]), "c": mi(putp, now, e["c"]),
                 "ht": mi(putp, op == 1, e["ht"]), "t": mi(putp, ttl, e["t"])}
            # restore: contents become the chosen snapshot, entries without ttl, created now
            for j, c in enumerate(ckpts):
                rs = band(op == 5, which == j)
                sp, sv = c["snap"][k]
                n = {"p": mi(rs, sp, n["p"]), "v": mi(rs, sv, n["v"]), "c": mi(rs, now, n["c"]), "ht": mi(rs, False, n["ht"]), "t": n["t"]}
                saw_restore_after_change = bor(saw_restore_after_change, band(rs, bnot(zbool(sp) == zbool(live(k, now)))))
            mdl[k] = n
        for c in ckpts:
            saw_same_ms = bor(saw_same_ms, band(op == 4, c["taken"], c["time"] == now))
        ckpts.append({"taken": op == 4, "id": cid if cid is not None else S("none"), "time": now, "snap": snapshot_now})
        # observation ----------------------------------------------------------------------------
        for k in KEYS:
            g = ip.deref(h.call("StateStore::get", [h.get("st"), S(k)]))
            h.require(ip.tag_eq(g, 0), "C20: get returned an error")
            o = ip.deref(g.pl[0][0]) if g.pl.get(0) else None
            if o is None:
                continue
            want_p = live(k, now)
            h.require(zbool(ip.tag_eq(o, 1)) == zbool(want_p), "C20: key presence differs from the reference (after a restore: from the state at checkpoint time)")
            if o.pl.get(1):
                vv = ip.deref(o.pl[1][0])
                if vv.pl.get(vi["Integer"]):
                    h.require(bor(bnot(band(ip.tag_eq(o, 1), want_p)), ip.eq(vv.pl[vi["Integer"]][0], I(mdl[k]["v"]))),
                              "C20: value differs from the reference (after a restore: from the state at checkpoint time)")
    if crash:
        # ---- crash clause: one more checkpoint, interrupted at a symbolic file-system mutation; then a fresh store on the
        # same directory (the process restarted) restores either an earlier checkpoint or the interrupted one
        h.tag = "crash"
        adv = h.int("advance%d" % K, 0, 5).v
        now = now + adv
        ip.wall_frozen = now
        cp = h.int("crash_point", 0, N_FS_STEPS).v          # N_FS_STEPS = no crash (checkpoint completed)
        snapshot_now = {k: (live(k, now), mdl[k]["v"]) for k in KEYS}
        ip.fs_crash, ip.fs_ops = cp, z3.IntVal(0)
        rc = ip.deref(ip.call("StateStore::checkpoint", [st, S("n")]))
        h.require(ip.tag_eq(rc, 0), "C20: checkpoint failed on the (modelled) file backend")
        h.require(ip.fs_ops == N_FS_STEPS, "C20 harness: the checkpoint performed %d file-system mutations (model out of date)" % N_FS_STEPS)
        ip.fs_crash = None
        for c in ckpts:
            saw_same_ms = bor(saw_same_ms, band(c["taken"], c["time"] == now))
        ckpts.append({"taken": True, "id": ip.deref(rc.pl[0][0]), "time": now, "snap": snapshot_now})
        now = now + 1 + h.int("restart_ms", 0, 5).v
        ip.wall_frozen = now
        h.let("st2", h.call("StateStore::with_config", [cfg]))
        which = h.int("which%d" % K, 0, K).v
        h.assume(zbool(bor(*[band(which == j, c["taken"]) for j, c in enumerate(ckpts)])))
        rid = ckpts[-1]["id"]
        for j in range(len(ckpts) - 2, -1, -1):
            rid = ite(which == j, ckpts[j]["id"], rid)
        r5 = ip.deref(ip.call("StateStore::restore", [h.ref("st2"), rid]))
        must_ok = bor(which < K, cp == N_FS_STEPS)
        h.require(bor(bnot(must_ok), ip.tag_eq(r5, 0)), "C20: after an interrupted checkpoint, restoring an earlier (or a completed) checkpoint returned an error")
        for k in KEYS:
            wp, wv = False, z3.IntVal(0)
            for j, c in enumerate(ckpts):
                wp, wv = mi(which == j, c["snap"][k][0], wp), mi(which == j, c["snap"][k][1], wv)
            g = ip.deref(h.call("StateStore::get", [h.get("st2"), S(k)]))
            o = ip.deref(g.pl[0][0]) if g.pl.get(0) else None
            if o is None:
                continue
            okr = ip.tag_eq(r5, 0)
            msg = "C20: after an interrupted checkpoint, a successful restore yields a state that differs from the state at checkpoint time (damaged earlier checkpoint or partial state)"
            h.require(bor(bnot(okr), zbool(ip.tag_eq(o, 1)) == zbool(wp)), msg)
            if o.pl.get(1):
                vv = ip.deref(o.pl[1][0])
                if vv.pl.get(vi["Integer"]):
                    h.require(bor(bnot(band(okr, ip.tag_eq(o, 1), wp)), ip.eq(vv.pl[vi["Integer"]][0], I(wv))), msg)
        h.cover(band(cp < N_FS_STEPS, which == K, bnot(ip.tag_eq(r5, 0))), "restoring the interrupted checkpoint returned an error")
        h.cover(band(cp < N_FS_STEPS, which < K), "an earlier checkpoint was restored after a crash")
    h.cover(saw_same_ms, "two checkpoints were taken within the same millisecond")
    if not crash:
        h.cover(saw_restore_after_change, "a restore changed the presence of a key")
    if witness:
        h.require(False, "C20 witness")
    res = h.decide()
    res["bounds"] = {"operations": K, "keys": KEYS}
    res["harness"] = h
    res["K"] = K
    res["crash"] = crash
    return res


def decode(res, m):
    names = ["put", "put_with_ttl", "update", "delete", "checkpoint", "restore"]
    out = []
    for s in range(res["K"]):
        op = m["op%d" % s]
        o = {"advance_ms": m["advance%d" % s], "op": names[op]}
        if op <= 3:
            o["key"] = KEYS[m["key%d" % s]]
        if op <= 2:
            o["value"] = m["val%d" % s]
        if op == 1:
            o["ttl_ms"] = m["ttl%d" % s]
        if op == 5:
            o["checkpoint_taken_at_step"] = m["which%d" % s]
        out.append(o)
    if res.get("crash"):
        K = res["K"]
        w = m["which%d" % K]
        out.append({"advance_ms": m["advance%d" % K], "op": "interrupted_checkpoint", "crash_before_fs_mutation": m["crash_point"],
                    "restart_after_ms": 1 + m["restart_ms"], "then_restore": "interrupted" if w == K else w})
    return out


def finding_key(msg, trace):
    t = 0
    times = []
    same = False
    for o in trace:
        t += o["advance_ms"]
        if o["op"] in ("checkpoint", "interrupted_checkpoint"):
            if t in times:
                same = True
            times.append(t)
    crash = "crash|" if trace and trace[-1]["op"] == "interrupted_checkpoint" else ""
    return crash + ("two-checkpoints-in-one-millisecond|" if same else "distinct-milliseconds|") + "C20"


SCALE_MS = 200     # native replay: one model millisecond of clock advance = 200 ms of sleep; a ttl of t = 200 t + 100 ms (margin for scheduling jitter)


def reference(trace):
    """concrete run of the reference model: expected {key: value or None} after every step"""
    now, mdl, snaps, out = 0, {}, {}, []
    live = lambda k: k in mdl and not (mdl[k][2] is not None and now > mdl[k][1] + mdl[k][2])
    for i, o in enumerate(trace):
        now += o["advance_ms"]
        k = o.get("key")
        if o["op"] == "put":
            mdl[k] = (o["value"], now, None)
        elif o["op"] == "put_with_ttl":
            mdl[k] = (o["value"], now, o["ttl_ms"])
        elif o["op"] == "update":
            if live(k):
                mdl[k] = (o["value"],) + mdl[k][1:]
        elif o["op"] == "delete":
            mdl.pop(k, None)
        elif o["op"] in ("checkpoint", "interrupted_checkpoint"):
            snaps[i] = {x: mdl[x][0] for x in KEYS if live(x)}
        else:
            mdl = {x: (v, now, None) for x, v in snaps[o["checkpoint_taken_at_step"]].items()}
        out.append({x: (mdl[x][0] if live(x) else None) for x in KEYS})
    return out, snaps


def replay_source(trace):
    # the native replay cannot freeze the wall clock: it takes checkpoints back to back when the trace asks for the same
    # millisecond (retrying until the ids really collide) and sleeps (scaled by SCALE_MS) when the trace advances the clock
    lines = []
    want, snaps = reference(trace)
    same_ms = "two-" in finding_key("", trace)
    crash = trace[-1] if trace and trace[-1]["op"] == "interrupted_checkpoint" else None
    for i, o in enumerate(trace):
        if o is crash:
            break
        if o["advance_ms"] > 0:
            lines.append("std::thread::sleep(Duration::from_millis(%d));" % (o["advance_ms"] * SCALE_MS))
        k = o.get("key")
        if o["op"] == "put":
            lines.append('st.put("%s", Value::Integer(%d)).unwrap();' % (k, o["value"]))
        elif o["op"] == "put_with_ttl":
            lines.append('st.put_with_ttl("%s", Value::Integer(%d), Duration::from_millis(%d)).unwrap();' % (k, o["value"], o["ttl_ms"] * SCALE_MS + SCALE_MS // 2))
        elif o["op"] == "update":
            lines.append('let _ = st.update("%s", Value::Integer(%d));' % (k, o["value"]))
        elif o["op"] == "delete":
            lines.append('st.delete("%s").unwrap();' % k)
        elif o["op"] == "checkpoint":
            lines.append('ids.insert(%d, st.checkpoint("n").unwrap());' % i)
        else:
            lines.append("st.restore(&ids[&%d]).unwrap();" % o["checkpoint_taken_at_step"])
        exp = ", ".join('("%s", %s)' % (x, "Some(Value::Integer(%d))" % v if v is not None else "None") for x, v in want[i].items())
        lines.append('for (k, want) in [%s] { let got = st.get(k).unwrap(); if got != want { bad.push(format!("after step %d: {} = {:?}, reference {:?}", k, got, want)); } }' % (exp, i))
    body = "\n        ".join(lines)
    tail = "bad"
    if crash is not None:
        # the crash is emulated natively: the real checkpoint runs to completion, then the interrupted checkpoint's directory is
        # rewritten to what the crash point leaves behind (nothing / directory only / state.json truncated at EVERY byte length);
        # a fresh StateStore on the same directory then restores
        cp, w, n = crash["crash_before_fs_mutation"], crash["then_restore"], len(trace) - 1
        snap = snaps[n] if w == "interrupted" else snaps[w]
        exp = ", ".join('("%s", %s)' % (x, "Some(Value::Integer(%d))" % snap[x] if x in snap else "None") for x in KEYS)
        must_ok = "true" if (w != "interrupted" or cp == N_FS_STEPS) else "false"
        pre = "std::thread::sleep(Duration::from_millis(%d));" % (crash["advance_ms"] * SCALE_MS) if crash["advance_ms"] else ""
        tail = """%s
    let earlier: Vec<String> = ids.values().cloned().collect();
    let cp = %d;
    let mut new_id: Option<String> = None;
    if cp >= 1 { new_id = Some(st.checkpoint("n").unwrap()); }
    drop(st);
    let mut variants: Vec<Option<Vec<u8>>> = Vec::new();      // contents of the interrupted state.json to try (None = leave as is)
    if let Some(id) = &new_id {
        let f = dir.join(id).join("state.json");
        let full = std::fs::read(&f).unwrap();
        if cp == 1 {
            if earlier.contains(id) { return vec![]; }           // shared directory: 'file not yet created' cannot be emulated after the fact
            std::fs::remove_file(&f).unwrap(); variants.push(None);
        } else if cp == 2 { for l in 0..full.len() { variants.push(Some(full[..l].to_vec())); } }
        else { variants.push(None); }
    } else { variants.push(None); }
    let target: Option<String> = %s;
    for v in variants {
        if let (Some(id), Some(bytes)) = (&new_id, &v) { std::fs::write(dir.join(id).join("state.json"), bytes).unwrap(); }
        let Some(t) = &target else { continue };
        std::thread::sleep(Duration::from_millis(2));
        let mut s2 = StateStore::with_config(StateConfig { backend: StateBackend::File { path: dir.to_path_buf() }, max_checkpoints: 50, ..Default::default() });
        match s2.restore(t) {
            Err(e) => { if %s { bad.push(format!("restore of {} after the crash failed: {:?}", t, e)); } }
            Ok(()) => { for (k, want) in [%s] { let got = s2.get(k).unwrap(); if got != want { bad.push(format!("after crash (state.json = {:?} bytes) and restore of {}: {} = {:?}, state at checkpoint time {:?}", v.as_ref().map(|b| b.len()), t, k, got, want)); } } }
        }
        if !bad.is_empty() { break; }
    }
    bad""" % (pre, cp, "new_id.clone()" if w == "interrupted" else "Some(ids[&%d].clone())" % w, must_ok, exp)
    return """
use rust_rule_engine::streaming::state::{StateBackend, StateConfig, StateStore};
use rust_rule_engine::types::Value;
use std::collections::HashMap;
use std::time::{Duration, Instant};
#[allow(unused_mut, unused_variables)]
fn attempt(dir: &std::path::Path) -> Vec<String> {
    let _ = std::fs::remove_dir_all(dir);
    let mut st = StateStore::with_config(StateConfig { backend: StateBackend::File { path: dir.to_path_buf() }, max_checkpoints: 50, ..Default::default() });
    let mut ids: HashMap<usize, String> = HashMap::new();
    let mut bad: Vec<String> = Vec::new();
        %s
    %s
}
fn main() {
    let dir = std::env::temp_dir().join(format!("vreplay-c20-{}", std::process::id()));
    // same-millisecond checkpoints are a race natively: retry (at most %d attempts / 15 s)
    let mut reproduced: Vec<String> = Vec::new();
    let t0 = Instant::now();
    for _ in 0..%d {
        let bad = attempt(&dir);
        if !bad.is_empty() { reproduced = bad; break; }
        if t0.elapsed() > Duration::from_secs(15) { break; }
    }
    let _ = std::fs::remove_dir_all(&dir);
    if reproduced.is_empty() { println!("NOT-REPRODUCED"); } else { println!("REPRODUCED: {:?}", reproduced); }
}
""" % (body, tail, 2000 if same_ms else 2, 2000 if same_ms else 2)


if __name__ == "__main__":
    import sys
    r = run(int(sys.argv[1]))
    print(r["status"], r["covers"], r["inconclusive"][:5], "wall", r["wall_s"], "decide", r["decide_wall_s"])
    for msg, m in r["violations"]:
        print("VIOLATION", msg, decode(r, m), finding_key(msg, decode(r, m)))
