"""C13 — watermarks are monotone and every late event is accounted for (engine E3, rsym).

Real code executed symbolically: src/streaming/watermark.rs — WatermarkedStream::new /
add_event / current_watermark / late_stats / events / side_output / watermark_history,
WatermarkGenerator::{new, process_event, maybe_generate_watermark, is_late, current_watermark},
LateDataHandler::{new, handle_late_event, stats}, Watermark::{new, is_late}.

Inputs (all symbolic, one query family): K events with ANY u64 timestamps in any order,
watermark strategy in {BoundedOutOfOrder(any delay), MonotonicAscending, Periodic(any
interval, arbitrary non-decreasing wall clock)}, late-data strategy in {Drop,
AllowedLateness(any), SideOutput, RecomputeWindows}.
"""
import z3

from hlib import *  # noqa: F401,F403

ID = "C13"
FEATURES = ["streaming"]
FILES = ["types.rs", "streaming/event.rs", "streaming/watermark.rs"]
FUNCTIONS = ["WatermarkedStream::new", "WatermarkedStream::add_event", "WatermarkedStream::current_watermark",
             "WatermarkedStream::late_stats", "WatermarkedStream::events", "WatermarkedStream::side_output",
             "WatermarkedStream::watermark_history", "WatermarkGenerator::new", "WatermarkGenerator::process_event",
             "WatermarkGenerator::maybe_generate_watermark", "WatermarkGenerator::is_late",
             "WatermarkGenerator::current_watermark", "LateDataHandler::new", "LateDataHandler::handle_late_event",
             "LateDataHandler::stats", "Watermark::new", "Watermark::is_late"]
TIERS = {
    "quick": [{"K": 5}],
    "thorough": [{"K": 8}, {"K": 10, "ts_max": 40}],
}
ASSUMPTIONS = [
    "events carry empty payload maps and constant id/type/source strings (watermark.rs never reads them)",
    "SystemTime::now() (Periodic strategy only) returns arbitrary non-decreasing millisecond instants below 2^62",
    "Duration is modelled at millisecond resolution (Duration::from_millis arguments are symbolic u64)",
    "Vec modelled as a bounded slot array (bound = number of events + 1, checked by bound obligations)",
]
BOUNDS_NOTE = ("bounds: K events per history (see runs[].bounds), timestamps over the whole u64 range unless ts_max is given; "
               "WatermarkStrategy::Custom is exercised only for monotonicity/accounting; longer histories are outside the claim")

U64 = 2**64 - 1


def event(ts):
    return St("StreamEvent", {
        "id": S("e"), "event_type": S("T"), "data": Mp([]),
        "metadata": St("EventMetadata", {"timestamp": ts, "source": S("s"), "sequence": I(0, "u64"), "tags": Mp([])}),
    })


def dur(ms):
    return St("Duration", {"ms": I(ms, "u128")})


def run(K, ts_max=U64, witness=False):
    h = Harness(FILES, cap=K + 1, loop_bound=K + 2, rec_bound=4)
    ip = h.ip
    wvar = {n: i for i, (n, _) in enumerate(ip.enums["WatermarkStrategy"])}
    lvar = {n: i for i, (n, _) in enumerate(ip.enums["LateDataStrategy"])}
    ws = h.int("wstrategy", 0, 3).v
    ls = h.int("lstrategy", 0, 3).v
    delay = h.int("delay_ms", 0, U64).v
    interval = h.int("interval_ms", 0, 2**40).v
    lateness = h.int("max_lateness_ms", 0, U64).v
    wstrat = En("WatermarkStrategy", ws, {
        wvar["Periodic"]: {"interval": dur(interval)},
        wvar["BoundedOutOfOrder"]: {"max_delay": dur(delay)},
    })
    lstrat = En("LateDataStrategy", ls, {lvar["AllowedLateness"]: {"max_lateness": dur(lateness)}})
    h.let("s", h.call("WatermarkedStream::new", [wstrat, lstrat]))
    s = h.ref("s")

    is_b = ws == wvar["BoundedOutOfOrder"]
    is_m = ws == wvar["MonotonicAscending"]
    wm = z3.IntVal(0)
    maxts = z3.IntVal(0)
    accepted = z3.IntVal(0)
    dropped = z3.IntVal(0)
    allowed = z3.IntVal(0)
    side = z3.IntVal(0)
    late_total = z3.IntVal(0)
    saw_late = False
    saw_allowed = False
    saw_advance2 = False
    advances = z3.IntVal(0)
    for i in range(K):
        h.tag = 'step%d' % i
        ts = h.int("ts%d" % i, 0, ts_max).v
        before = ip.deref(h.call("WatermarkedStream::current_watermark", [h.get("s")])).f["timestamp"]
        h.require(ip.eq(before, I(wm)), "C13: watermark differs from the reference before an event")
        r = h.call("WatermarkedStream::add_event", [s, event(I(ts, "u64"))])
        h.require(ip.tag_eq(ip.deref(r), 0), "C13: add_event returned Err")
        after = ip.deref(h.call("WatermarkedStream::current_watermark", [h.get("s")])).f["timestamp"]
        # reference -----------------------------------------------------------
        late = ts < wm
        lness = wm - ts
        is_drop = bor(ls == lvar["Drop"], band(ls == lvar["AllowedLateness"], lness > lateness))
        is_allow = bor(ls == lvar["RecomputeWindows"], band(ls == lvar["AllowedLateness"], lness <= lateness))
        is_side = ls == lvar["SideOutput"]
        late_total = late_total + z3.If(late, 1, 0)
        dropped = dropped + z3.If(zbool(band(late, is_drop)), 1, 0)
        allowed = allowed + z3.If(zbool(band(late, is_allow)), 1, 0)
        side = side + z3.If(zbool(band(late, is_side)), 1, 0)
        accepted = accepted + z3.If(zbool(bor(bnot(late), band(late, is_allow))), 1, 0)
        maxts = z3.If(z3.And(z3.Not(late), ts > maxts), ts, maxts)
        cand = z3.If(is_b, z3.If(maxts - delay < 0, 0, maxts - delay), maxts)
        new_wm = z3.If(z3.And(z3.Not(late), z3.Or(is_b, is_m), cand > wm), cand, wm)
        saw_late = bor(saw_late, late)
        saw_allowed = bor(saw_allowed, band(late, ls == lvar["AllowedLateness"], lness <= lateness))
        advances = advances + z3.If(new_wm > wm, 1, 0)
        # properties ----------------------------------------------------------
        h.require(ip.bi.int_cmp(">=", after, before), "C13: watermark moved backwards")
        h.require(bor(bnot(bor(is_b, is_m)), ip.eq(after, I(new_wm))),
                  "C13: watermark after an event differs from max(previous, max_seen - delay)")
        h.require(bor(bnot(late), ip.eq(after, before)), "C13: a late event moved the watermark")
        wm = z3.If(z3.Or(is_b, is_m), new_wm, after.z())
        st = ip.deref(h.call("WatermarkedStream::late_stats", [h.get("s")]))
        nev = ip.deref(h.call("WatermarkedStream::events", [h.get("s")]))
        nside = ip.deref(h.call("WatermarkedStream::side_output", [h.get("s")]))
        hist = ip.deref(h.call("WatermarkedStream::watermark_history", [h.get("s")]))
        h.require(ip.eq(st.f["total_late"], I(late_total)), "C13: an event was (not) treated as late although its timestamp is (not) below the watermark")
        h.require(ip.eq(st.f["dropped"], I(dropped)), "C13: dropped count differs from the strategy's decision")
        h.require(ip.eq(st.f["allowed"], I(allowed)), "C13: allowed count differs from the strategy's decision")
        h.require(ip.eq(st.f["side_output"], I(side)), "C13: side-output count differs from the strategy's decision")
        h.require(ip.eq(I(nev.n), I(accepted)), "C13: accepted events differ from on-time + allowed-late events")
        h.require(ip.eq(I(nside.n), I(side)), "C13: side output buffer differs from side-output decisions")
        h.require(ip.eq(st.f["total_late"], I(zi(st.f["dropped"]) + zi(st.f["allowed"]) + zi(st.f["side_output"]))),
                  "C13: late statistics do not add up")
        h.require(ip.eq(I(zi(I(nev.n)) + dropped + side), I(i + 1)), "C13: offered events are not each accounted exactly once")
        # history strictly increasing, last = current
        seq = ip.bi.vec_seq(hist)
        for j in range(1, len(seq)):
            p, it = seq[j]
            h.require(bor(bnot(p), ip.bi.int_cmp(">", it.f["timestamp"], seq[j - 1][1].f["timestamp"])),
                      "C13: watermark history is not strictly increasing")
        last = ip.bi.m_vec("last", hist, None, None, None, None, None, None)
        h.require(bor(ip.tag_eq(last, 0), ip.eq(last.pl[1][0].f["timestamp"], after)) if last.pl.get(1) else True,
                  "C13: last emitted watermark differs from the current watermark")
        # the accepted list ends with this event exactly when it was accepted
    saw_advance2 = advances >= 2
    h.cover(saw_late, "a late event occurred")
    h.cover(saw_allowed, "a late event within the allowed lateness was processed")
    h.cover(saw_advance2, "the watermark advanced at least twice")
    if witness:
        h.require(False, "C13 witness: end of harness reached")
    res = h.decide()
    res["bounds"] = {"events": K, "timestamp_max": ts_max}
    res["harness"] = h
    res["K"] = K
    return res


def zi(x):
    return x.z() if isinstance(x, I) else x


def decode(res, m):
    K = res["K"]
    wn = ["Periodic", "BoundedOutOfOrder", "MonotonicAscending", "Custom"]
    ln = ["Drop", "AllowedLateness", "SideOutput", "RecomputeWindows"]
    return {"watermark_strategy": wn[m["wstrategy"]], "delay_ms": m["delay_ms"], "interval_ms": m["interval_ms"],
            "late_strategy": ln[m["lstrategy"]], "max_lateness_ms": m["max_lateness_ms"],
            "timestamps": [m["ts%d" % i] for i in range(K)]}


def finding_key(msg, trace):
    return msg


def replay_source(t):
    if t["watermark_strategy"] in ("Periodic", "Custom"):
        ws = {"Periodic": "WatermarkStrategy::Periodic { interval: Duration::from_millis(%d) }" % t["interval_ms"],
              "Custom": "WatermarkStrategy::Custom"}[t["watermark_strategy"]]
    elif t["watermark_strategy"] == "BoundedOutOfOrder":
        ws = "WatermarkStrategy::BoundedOutOfOrder { max_delay: Duration::from_millis(%d) }" % t["delay_ms"]
    else:
        ws = "WatermarkStrategy::MonotonicAscending"
    ls = {"Drop": "LateDataStrategy::Drop", "SideOutput": "LateDataStrategy::SideOutput",
          "RecomputeWindows": "LateDataStrategy::RecomputeWindows",
          "AllowedLateness": "LateDataStrategy::AllowedLateness { max_lateness: Duration::from_millis(%d) }" % t["max_lateness_ms"]}[t["late_strategy"]]
    kind = {"Periodic": 0, "BoundedOutOfOrder": 1, "MonotonicAscending": 2, "Custom": 3}[t["watermark_strategy"]]
    lkind = {"Drop": 0, "AllowedLateness": 1, "SideOutput": 2, "RecomputeWindows": 3}[t["late_strategy"]]
    return """
use rust_rule_engine::streaming::event::StreamEvent;
use rust_rule_engine::streaming::watermark::*;
use std::collections::HashMap;
use std::time::Duration;

fn main() {
    let ts: Vec<u64> = vec![%s];
    let kind = %d; let lkind = %d; let delay: u128 = %d; let lateness: u128 = %d;
    let mut s = WatermarkedStream::new(%s, %s);
    let (mut wm, mut maxts): (u128, u128) = (0, 0);
    let (mut accepted, mut dropped, mut allowed, mut side, mut late_total) = (0usize, 0usize, 0usize, 0usize, 0usize);
    let mut bad: Vec<String> = Vec::new();
    for (i, t) in ts.iter().enumerate() {
        let t128 = *t as u128;
        let before = s.current_watermark().timestamp as u128;
        if kind == 1 || kind == 2 { if before != wm { bad.push(format!("watermark {} != reference {} before event {}", before, wm, i)); } }
        let wmb = before;
        let ev = StreamEvent::with_timestamp("T", HashMap::new(), "s", *t);
        if s.add_event(ev).is_err() { bad.push("add_event Err".into()); }
        let after = s.current_watermark().timestamp as u128;
        let late = t128 < wmb;
        if late {
            late_total += 1;
            let lness = wmb - t128;
            match lkind { 0 => dropped += 1, 1 => if lness <= lateness { allowed += 1; accepted += 1 } else { dropped += 1 }, 2 => side += 1, _ => { allowed += 1; accepted += 1 } }
        } else {
            accepted += 1;
            if t128 > maxts { maxts = t128; }
        }
        if after < before { bad.push(format!("watermark moved backwards at event {}", i)); }
        if late && after != before { bad.push(format!("late event {} moved the watermark", i)); }
        if kind == 1 || kind == 2 {
            let cand = if kind == 1 { maxts.saturating_sub(delay) } else { maxts };
            let nw = if !late && cand > wmb { cand } else { wmb };
            if after != nw { bad.push(format!("watermark {} != max(prev, max_seen - delay) = {} after event {}", after, nw, i)); }
        }
        wm = after;
        let st = s.late_stats();
        if st.total_late != late_total { bad.push(format!("total_late {} != {}", st.total_late, late_total)); }
        if st.dropped != dropped { bad.push(format!("dropped {} != {}", st.dropped, dropped)); }
        if st.allowed != allowed { bad.push(format!("allowed {} != {}", st.allowed, allowed)); }
        if st.side_output != side { bad.push(format!("side_output {} != {}", st.side_output, side)); }
        if s.events().len() != accepted { bad.push(format!("events {} != accepted {}", s.events().len(), accepted)); }
        if s.side_output().len() != side { bad.push("side output buffer".into()); }
        if st.total_late != st.dropped + st.allowed + st.side_output { bad.push("late statistics do not add up".into()); }
        if s.events().len() + dropped + side != i + 1 { bad.push("offered events not accounted exactly once".into()); }
        let hist = s.watermark_history();
        for w in hist.windows(2) { if w[1].timestamp <= w[0].timestamp { bad.push("history not strictly increasing".into()); } }
        if let Some(l) = hist.last() { if l.timestamp as u128 != after { bad.push("last emitted watermark != current".into()); } }
    }
    if bad.is_empty() { println!("NOT-REPRODUCED"); } else { println!("REPRODUCED: {:?}", bad); }
}
""" % (", ".join(str(x) for x in t["timestamps"]), kind, lkind, t["delay_ms"], t["max_lateness_ms"], ws, ls)


if __name__ == "__main__":
    import sys
    r = run(int(sys.argv[1]), witness=len(sys.argv) > 2)
    print(r["status"], r["covers"], r["inconclusive"][:5], "wall", r["wall_s"], "decide", r["decide_wall_s"])
    for msg, m in r["violations"]:
        print("VIOLATION", msg, decode(r, m))
