"""C02 — firing order and rule attributes are honoured on every run (engine E3, rsym).
Decided on the REAL engine gate (execute_with_callback / execute_at_time); see enginecore.py."""
import z3

from hlib import *  # noqa: F401,F403
import enginecore as ec

ID = "C02"
FEATURES = []
REPLAY_DEPS = 'chrono = { version = "0.4", features = ["serde"] }\n'
FILES = ec.FILES
FUNCTIONS = ec.FUNCTIONS
ASSUMPTIONS = ec.ASSUMPTIONS
TIERS = {
    "quick": [{"R": 2, "C": 2, "entry": "callback"}, {"R": 3, "C": 2, "entry": "callback", "extras": False}, {"R": 2, "C": 2, "entry": "at_time"}],
    "thorough": [{"R": 3, "C": 2, "entry": "callback"}, {"R": 3, "C": 3, "entry": "callback", "extras": False}, {"R": 2, "C": 3, "entry": "at_time"}],
}
BOUNDS_NOTE = ("bounds: R rules, max_cycles <= C (see runs[].bounds); one execute per fresh engine; focus histories beyond one "
               "set_agenda_focus, ActivateAgendaGroup actions, workflow scheduling and repeated execute calls are outside the claim")


def run(R, C, entry, extras=True, witness=False):
    h = Harness(FILES, cap=max(R, 4) + 2, loop_bound=max(C, R) + 2, rec_bound=4)
    ip = h.ip
    d = ec.build(h, R, C, entry, extras)
    out = d["out"]
    h.tag = "result"
    h.require(ip.tag_eq(out, 0), "C02: execute returned an error")
    res = ip.deref(out.pl[0][0])
    if entry == "callback":
        name_impl = lambda s: s
        name_ref = lambda i: S("r%d" % i)
        for k in range(R * C):
            h.tag = "firing%d" % k
            ei, vi_, ni = ec.kth(d["fired"], k, name_impl)
            er, vr, nr = ec.kth(d["ref_log"], k, name_ref)
            h.require(zbool(ei) == zbool(er), "C02: the number of firings differs from the reference (attribute gate)")
            if vi_ is not None and vr is not None:
                h.require(bor(bnot(band(ei, er)), ip.eq(vi_, vr)), "C02: the firing sequence differs from descending salience / insertion order / attribute gates")
    h.tag = "counters"
    h.require(ip.eq(res.f["rules_fired"], I(d["nfired"])), "C02: rules_fired differs from the reference firings")
    h.require(ip.eq(res.f["rules_evaluated"], I(d["evaluated"])), "C02: rules_evaluated differs from the rules that passed the eligibility gate")
    vi = d["vi"]
    for i in range(R):
        g = ip.deref(h.call("Facts::get", [h.get("facts"), S("flag_%d" % i)]))
        v = ip.deref(g.pl[1][0]) if g.pl.get(1) else None
        if v is not None and v.pl.get(vi["Boolean"]):
            h.require(band(ip.tag_eq(g, 1), zbool(v.pl[vi["Boolean"]][0]) == zbool(d["flags"][i])), "C02: final facts differ from the reference run")
    rules = d["rules"]
    h.cover(band(d["nfired"] >= 2, rules[0]["sal"].v == rules[1]["sal"].v), "two firings with equal salience rules")
    h.cover(bor(*[band(g, bor(*[band(i == j, rules[j]["xg"]) for j in range(R)])) for g, i in d["ref_log"]]), "an activation-group rule fired")
    h.cover(d["focus_g"], "focus on the agenda group G")
    if witness:
        h.require(False, "C02 witness")
    r = h.decide()
    r["bounds"] = {"rules": R, "max_cycles_up_to": C, "entry": entry, "activation_actions_and_removed_rule": extras}
    r["harness"] = h
    r["R"], r["entry"] = R, entry
    return r


def decode(res, m):
    return ec.decode_rules(m, res["R"], res["entry"])


def finding_key(msg, trace):
    return msg


replay_source = ec.replay_source

if __name__ == "__main__":
    import sys
    r = run(int(sys.argv[1]), int(sys.argv[2]), sys.argv[3])
    print(r["status"], r["covers"], r["inconclusive"][:5], "wall", r["wall_s"], "decide", r["decide_wall_s"])
    for msg, m in r["violations"]:
        print("VIOLATION", msg, decode(r, m))
