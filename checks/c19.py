"""C19 (thread-count / chunking clause) — parallel execution gives the sequential verdicts (engine rsym).

Clause decided: "Parallel rule execution reports the same set of fired rules and the same evaluated and fired counts as
evaluating the same enabled rules one by one on the same facts, for every thread count [and] chunking ..., and it always
returns" — for ONE thread schedule: every worker runs to completion when it is spawned. The "every thread schedule"
part of C19 is NOT decided here (no interleaving model); see ASSUMPTIONS.

Real code executed symbolically: src/engine/parallel.rs — ParallelRuleEngine::{new, execute_parallel,
group_rules_by_salience, should_parallelize, execute_rules_parallel (chunk arithmetic, worker closures, result vector),
execute_rules_sequential, evaluate_rule_conditions, evaluate_single_condition, execute_action_parallel}, with the real
KnowledgeBase, Facts and Operator::evaluate.

Inputs: N rules, each with a symbolic condition (flag_p == true | And | Or | Not over flags), symbolic salience from
{0,1,2} (ties), symbolic enabled flag; symbolic facts; ParallelConfig with symbolic enabled, max_threads 1..16,
min_rules_per_thread 1..4.
"""
import z3

import values as V
from hlib import *  # noqa: F401,F403

ID = "C19"
FEATURES = []
FILES = ["errors.rs", "types.rs", "expression.rs", "engine/facts.rs", "engine/rule.rs", "engine/knowledge_base.rs", "engine/parallel.rs"]
FUNCTIONS = ["ParallelRuleEngine::new", "ParallelRuleEngine::execute_parallel", "ParallelRuleEngine::group_rules_by_salience",
             "ParallelRuleEngine::should_parallelize", "ParallelRuleEngine::execute_rules_parallel", "ParallelRuleEngine::execute_rules_sequential",
             "ParallelRuleEngine::evaluate_rule_conditions", "ParallelRuleEngine::evaluate_single_condition",
             "ParallelRuleEngine::execute_action_parallel", "KnowledgeBase::add_rule", "KnowledgeBase::get_rules", "Facts::get_nested", "Facts::get",
             "Operator::evaluate"]
FLAGS = ["p", "q", "s"]
TIERS = {
    "quick": [{"N": 3}],
    "thorough": [{"N": 4}],
}
ASSUMPTIONS = [
    "ONE thread schedule: std::thread::spawn runs the worker body to completion at spawn time, join returns its value; Arc/Mutex/RwLock are transparent. The 'every thread schedule' part of C19 is NOT covered",
    "rules r0..: condition `flag == true`, And / Or of two such, or Not of one, over boolean facts p, q, s (each absent / true / false); one Set action (the parallel engine does not apply Set actions); salience in {0,1,2}; symbolic enabled flag",
    "ParallelConfig: enabled symbolic, max_threads 1..16, min_rules_per_thread 1..4; debug_mode off; ParallelRuleEngine::calculate_speedup (a timing statistic in f64) is stubbed to 1.0",
    "HashMap iteration = one fixed order (results are compared as sets)",
]
BOUNDS_NOTE = "bounds: N rules (see runs[].bounds); custom functions, exists/forall/accumulate/multifield conditions, and all thread interleavings are outside the claim"


def run(N, witness=False):
    h = Harness(FILES, cap=N + 2, loop_bound=N + 3, rec_bound=6)
    ip = h.ip
    ip.split_fns = {"Facts::get_nested", "evaluate_expression"}
    ip.arc_clone_aliases = True
    vi = {n: i for i, (n, _) in enumerate(ip.enums["Value"])}
    oi = {n: i for i, (n, _) in enumerate(ip.enums["Operator"])}
    ai = {n: i for i, (n, _) in enumerate(ip.enums["ActionType"])}
    ip.overrides["ParallelRuleEngine::calculate_speedup"] = lambda ip_, args: F(1.0)

    def vbool(b):
        return En("Value", vi["Boolean"], {vi["Boolean"]: [b]})

    def pick(name, options):
        i = h.int(name, 0, len(options) - 1).v
        s = S(options[-1])
        for j in range(len(options) - 2, -1, -1):
            s = ite(i == j, S(options[j]), s)
        return i, s

    h.let("kb", h.call("KnowledgeBase::new", [S("kb")]))
    h.let("facts", h.call("Facts::new", []))
    truth = {}
    for f in FLAGS:
        pres, val = h.bool("has_%s" % f), h.bool("val_%s" % f)
        truth[f] = band(pres, val)
        with ip.under(pres):
            ip.call("Facts::set", [h.ref("facts"), S(f), vbool(val)])
    rules = []
    for i in range(N):
        p1, s1 = pick("r%d_f1" % i, FLAGS)
        p2, s2 = pick("r%d_f2" % i, FLAGS)
        shape = h.int("r%d_shape" % i, 0, 3).v          # single | and | or | not
        sal = h.int("r%d_salience" % i, 0, 2, "i32").v
        en = h.bool("r%d_enabled" % i)
        c1 = h.call("ConditionGroup::single", [h.call("Condition::new", [s1, En("Operator", oi["Equal"], {}), vbool(True)])])
        c2 = h.call("ConditionGroup::single", [h.call("Condition::new", [s2, En("Operator", oi["Equal"], {}), vbool(True)])])
        cg = ite(shape == 0, c1, ite(shape == 1, h.call("ConditionGroup::and", [c1, c2]),
                                     ite(shape == 2, h.call("ConditionGroup::or", [c1, c2]), h.call("ConditionGroup::not", [c1]))))
        act = En("ActionType", ai["Set"], {ai["Set"]: {"field": S("out"), "value": vbool(True)}})
        rule = h.call("Rule::new", [S("r%d" % i), cg, Vc([act])])
        rule = St(rule.name, dict(rule.f, salience=I(sal, "i32"), enabled=en))
        r = ip.deref(ip.call("KnowledgeBase::add_rule", [h.ref("kb"), rule]))
        h.require(ip.tag_eq(r, 0), "C19 harness: add_rule failed")
        t1 = bor(*[band(p1 == j, truth[FLAGS[j]]) for j in range(len(FLAGS))])
        t2 = bor(*[band(p2 == j, truth[FLAGS[j]]) for j in range(len(FLAGS))])
        cond = ite(shape == 0, t1, ite(shape == 1, band(t1, t2), ite(shape == 2, bor(t1, t2), bnot(t1))))
        rules.append({"enabled": en, "fires": band(en, cond), "sal": sal})
    cfg = St("ParallelConfig", {"enabled": h.bool("parallel_enabled"), "max_threads": h.int("max_threads", 1, 16, "usize"),
                                "min_rules_per_thread": h.int("min_rules_per_thread", 1, 4, "usize"), "dependency_analysis": True})
    h.let("eng", h.call("ParallelRuleEngine::new", [cfg]))
    h.tag = "run"
    res = ip.deref(ip.call("ParallelRuleEngine::execute_parallel", [h.ref("eng"), h.ref("kb"), h.ref("facts"), False]))
    h.require(ip.tag_eq(res, 0), "C19: execute_parallel returned an error")
    if res.pl.get(0):
        out = ip.deref(res.pl[0][0])
        n_en = sum([z3.If(zbool(r["enabled"]), 1, 0) for r in rules])
        n_fi = sum([z3.If(zbool(r["fires"]), 1, 0) for r in rules])
        h.require(ip.eq(out.f["total_rules_evaluated"], I(n_en)), "C19: evaluated count differs from the number of enabled rules")
        h.require(ip.eq(out.f["total_rules_fired"], I(n_fi)), "C19: fired count differs from evaluating the enabled rules one by one")
        ctxs = ip.deref(out.f["execution_contexts"])
        n = ctxs.n if not isinstance(ctxs.n, int) else z3.IntVal(ctxs.n)
        h.require(n == n_en, "C19: the number of reported rule results differs from the number of enabled rules")
        for i, r in enumerate(rules):
            seen, fired = z3.IntVal(0), False
            for p, el in enumerate(ctxs.items):
                inb = n > p
                if inb is False or el is None:
                    continue
                c = ip.deref(el)
                hit = band(inb, ip.eq(ip.deref(c.f["rule"]).f["name"], S("r%d" % i)))
                seen = seen + z3.If(zbool(hit), 1, 0)
                fired = bor(fired, band(hit, c.f["fired"]))
            h.tag = "rule%d" % i
            h.require(seen == z3.If(zbool(r["enabled"]), 1, 0), "C19: an enabled rule is not reported exactly once (or a disabled rule is reported)")
            h.require(zbool(fired) == zbool(r["fires"]), "C19: the set of fired rules differs from evaluating the enabled rules one by one")
    par = cfg.f["enabled"]
    h.cover(band(par, *[r["enabled"] for r in rules], *[rules[0]["sal"] == r["sal"] for r in rules], cfg.f["max_threads"].v >= 2,
                 cfg.f["min_rules_per_thread"].v <= N), "all rules in one salience level, processed by worker threads")
    h.cover(band(bor(*[r["fires"] for r in rules]), bor(*[band(r["enabled"], bnot(r["fires"])) for r in rules])), "some rule fired and some enabled rule did not")
    if witness:
        h.require(False, "C19 witness")
    out_ = h.decide()
    out_["bounds"] = {"rules": N, "max_threads": [1, 16], "min_rules_per_thread": [1, 4], "salience_values": 3}
    out_["harness"] = h
    out_["N"] = N
    return out_


def decode(res, m):
    N = res["N"]
    rs = []
    for i in range(N):
        sh = ["single", "and", "or", "not"][m["r%d_shape" % i]]
        r = {"name": "r%d" % i, "shape": sh, "f1": FLAGS[m["r%d_f1" % i]], "salience": m["r%d_salience" % i], "enabled": m["r%d_enabled" % i]}
        if sh in ("and", "or"):
            r["f2"] = FLAGS[m["r%d_f2" % i]]
        rs.append(r)
    facts = {f: m["val_%s" % f] for f in FLAGS if m["has_%s" % f]}
    return [{"facts": facts, "config": {"enabled": m["parallel_enabled"], "max_threads": m["max_threads"], "min_rules_per_thread": m["min_rules_per_thread"]}}] + rs


def finding_key(msg, trace):
    return ("parallel-on|" if trace[0]["config"]["enabled"] else "parallel-off|") + msg


def replay_source(trace):
    hd, rs = trace[0], trace[1:]
    L = []
    for f, v in hd["facts"].items():
        L.append('facts.set("%s", Value::Boolean(%s)); truth.insert("%s", %s);' % (f, str(v).lower(), f, str(v).lower()))
    for r in rs:
        c1 = 'c("%s")' % r["f1"]
        if r["shape"] == "single":
            cg, ex = c1, 't("%s")' % r["f1"]
        elif r["shape"] == "not":
            cg, ex = "ConditionGroup::not(%s)" % c1, '!t("%s")' % r["f1"]
        else:
            cg = "ConditionGroup::%s(%s, c(\"%s\"))" % (r["shape"], c1, r["f2"])
            ex = 't("%s") %s t("%s")' % (r["f1"], "&&" if r["shape"] == "and" else "||", r["f2"])
        L.append('{ let mut r = Rule::new("%s".to_string(), %s, vec![ActionType::Set { field: "out".to_string(), value: Value::Boolean(true) }]); r.salience = %d; r.enabled = %s; kb.add_rule(r).unwrap(); let t = |k: &str| *truth.get(k).unwrap_or(&false); if %s { want.insert("%s".to_string(), %s); } }'
                 % (r["name"], cg, r["salience"], str(r["enabled"]).lower(), str(r["enabled"]).lower(), r["name"], ex))
    c = hd["config"]
    return """
use rust_rule_engine::engine::facts::Facts;
use rust_rule_engine::engine::knowledge_base::KnowledgeBase;
use rust_rule_engine::engine::parallel::{ParallelConfig, ParallelRuleEngine};
use rust_rule_engine::engine::rule::{Condition, ConditionGroup, Rule};
use rust_rule_engine::types::{ActionType, Operator, Value};
use std::collections::{BTreeMap, HashMap};
fn c(f: &str) -> ConditionGroup { ConditionGroup::single(Condition::new(f.to_string(), Operator::Equal, Value::Boolean(true))) }
fn main() {
    let kb = KnowledgeBase::new("kb");
    let facts = Facts::new();
    let mut truth: HashMap<&str, bool> = HashMap::new();
    let mut want: BTreeMap<String, bool> = BTreeMap::new();      // enabled rule -> fires when evaluated on its own
    %s
    let eng = ParallelRuleEngine::new(ParallelConfig { enabled: %s, max_threads: %d, min_rules_per_thread: %d, dependency_analysis: true });
    let mut bad: Vec<String> = Vec::new();
    // repeat: the native run has real threads, the verdict must be the same every time
    for _ in 0..20 {
        match eng.execute_parallel(&kb, &facts, false) {
            Err(e) => bad.push(format!("execute_parallel failed: {:?}", e)),
            Ok(r) => {
                let mut got: BTreeMap<String, bool> = BTreeMap::new();
                let mut dup = false;
                for cx in &r.execution_contexts { if got.insert(cx.rule.name.clone(), cx.fired).is_some() { dup = true; } }
                if dup || got != want { bad.push(format!("reported {:?}, one-by-one evaluation {:?}", r.execution_contexts.iter().map(|c| (c.rule.name.clone(), c.fired)).collect::<Vec<_>>(), want)); }
                if r.total_rules_evaluated != want.len() || r.total_rules_fired != want.values().filter(|b| **b).count() {
                    bad.push(format!("counts evaluated={} fired={}, expected {} / {}", r.total_rules_evaluated, r.total_rules_fired, want.len(), want.values().filter(|b| **b).count()));
                }
            }
        }
        if !bad.is_empty() { break; }
    }
    if bad.is_empty() { println!("NOT-REPRODUCED"); } else { println!("REPRODUCED: {:?}", bad); }
}
""" % ("\n    ".join(L), str(c["enabled"]).lower(), c["max_threads"], c["min_rules_per_thread"])


if __name__ == "__main__":
    import sys
    r = run(int(sys.argv[1]))
    print(r["status"], r["covers"], r["inconclusive"][:5], "wall", r["wall_s"], "decide", r["decide_wall_s"])
    for msg, m in r["violations"]:
        tr = decode(r, m)
        print("VIOLATION", msg, tr, finding_key(msg, tr))
