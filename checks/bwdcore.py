"""Shared harness for C09 / C10 (failed-proof half) / C11: the REAL backward-chaining engine
(BackwardEngine::query -> QueryParser, ConclusionIndex, DepthFirstSearch / BreadthFirstSearch /
IterativeDeepeningSearch, RuleExecutor, ConditionEvaluator, Facts undo frames) executed symbolically.

Rule set (Horn style): R rules; rule i concludes `t_i := true` with t_i symbolic in {a, b, c, g} and has
a condition over one or two premises from {a, b, c}, each `p == true`, joined by And or Or (symbolic).
Cyclic dependencies, shared sub-goals, dead ends arise from the symbolic choices. Initial facts: a, b, c
each symbolically absent / true / false; g absent or false. Goal: "g == true".
"""
import z3

from hlib import *  # noqa: F401,F403

FILES = ["errors.rs", "types.rs", "expression.rs", "engine/facts.rs", "engine/rule.rs", "engine/knowledge_base.rs",
         "engine/condition_evaluator.rs", "rete/working_memory.rs", "backward/goal.rs", "backward/unification.rs",
         "backward/expression.rs", "backward/query.rs", "backward/conclusion_index.rs", "backward/rule_executor.rs",
         "backward/proof_tree.rs", "backward/proof_graph.rs", "backward/search.rs", "backward/backward_engine.rs"]
FUNCTIONS = ["BackwardEngine::with_config", "BackwardEngine::query", "BackwardEngine::query_with_rete_engine",
             "BackwardEngine::find_candidate_rules", "QueryParser::parse", "ExpressionParser::parse", "ConclusionIndex::from_rules",
             "ConclusionIndex::find_candidates", "DepthFirstSearch::search_with_execution",
             "DepthFirstSearch::search_recursive_with_execution", "DepthFirstSearch::try_prove_condition_group",
             "DepthFirstSearch::check_goal_in_facts", "BreadthFirstSearch::search_with_execution",
             "IterativeDeepeningSearch::search_with_execution", "RuleExecutor::try_execute_rule", "RuleExecutor::evaluate_conditions",
             "GoalManager::is_cached", "GoalManager::cache_result", "Facts::begin_undo_frame", "Facts::commit_undo_frame",
             "Facts::rollback_undo_frame", "Facts::set", "Facts::get"]
POOL = ["a", "b", "c"]
TARGETS = ["a", "b", "c", "g"]
ASSUMPTIONS = [
    "rule sets of R Horn-style rules of the shape described in checks/bwdcore.py (conclusions assign true; premises `p == true` over {a,b,c}, And/Or of at most two); goal `g == true`",
    "initial facts: a, b, c each absent / true / false (symbolic), g absent or false",
    "no RETE engine attached (query, not query_with_rete_engine with an engine); rule names r0..",
    "HashMap/HashSet iteration = one fixed order; strings interned; recursion bounded by max_depth + bound obligations",
]


def build_kb(h, R):
    ip = h.ip
    ip.split_fns = {"*"}      # text-processing functions get their symbolic string arguments case-split per alternative
    vi = {n: i for i, (n, _) in enumerate(ip.enums["Value"])}
    oi = {n: i for i, (n, _) in enumerate(ip.enums["Operator"])}
    ai = {n: i for i, (n, _) in enumerate(ip.enums["ActionType"])}

    def vbool(b):
        return En("Value", vi["Boolean"], {vi["Boolean"]: [b]})

    def pick(name, options):
        i = h.int(name, 0, len(options) - 1).v
        s = S(options[-1])
        for j in range(len(options) - 2, -1, -1):
            s = ite(i == j, S(options[j]), s)
        return i, s

    h.let("kb", h.call("KnowledgeBase::new", [S("kb")]))
    rules = []
    for i in range(R):
        ti, ts = pick("r%d_target" % i, TARGETS)
        p1, s1 = pick("r%d_p1" % i, POOL)
        p2, s2 = pick("r%d_p2" % i, POOL)
        two = h.bool("r%d_two" % i)
        isor = h.bool("r%d_or" % i)
        c1 = h.call("ConditionGroup::single", [h.call("Condition::new", [s1, En("Operator", oi["Equal"], {}), vbool(True)])])
        c2 = h.call("ConditionGroup::single", [h.call("Condition::new", [s2, En("Operator", oi["Equal"], {}), vbool(True)])])
        cand = h.call("ConditionGroup::and", [c1, c2])
        cor = h.call("ConditionGroup::or", [c1, c2])
        cg = ite(two, ite(isor, cor, cand), c1)
        act = En("ActionType", ai["Set"], {ai["Set"]: {"field": ts, "value": vbool(True)}})
        rule = h.call("Rule::new", [S("r%d" % i), cg, Vc([act])])
        ip.call("KnowledgeBase::add_rule", [h.ref("kb"), rule])
        rules.append({"t": ti, "p1": p1, "p2": p2, "two": two, "or": isor})
    return rules, vi, vbool


def facts_sym(h, vbool, prefix="f"):
    """symbolic initial facts -> (state dict name->(present, value)), creates Facts in var prefix"""
    ip = h.ip
    h.let(prefix, h.call("Facts::new", []))
    st = {}
    for k in POOL:
        p = h.bool("%s_has_%s" % (prefix, k))
        v = h.bool("%s_val_%s" % (prefix, k))
        st[k] = (p, v)
        with ip.under(p):
            ip.call("Facts::set", [h.ref(prefix), S(k), vbool(v)])
    gp = h.bool("%s_has_g" % prefix)
    st["g"] = (gp, False)
    with ip.under(gp):
        ip.call("Facts::set", [h.ref(prefix), S("g"), vbool(False)])
    return st


def truth(st, k):
    p, v = st[k]
    return band(p, v)


def closure_levels(rules, st, levels):
    """L_0 = initially true fields; L_{k+1} = L_k + conclusions of rules whose condition holds on L_k.
    returns list of dicts field -> bool term, one per level; conj_only: derivations through And/single rules"""
    cur = {k: truth(st, k) for k in TARGETS}
    cur_conj = dict(cur)
    out = [(dict(cur), dict(cur_conj))]
    for _ in range(levels):
        nxt, nxt_conj = dict(cur), dict(cur_conj)
        for r in rules:
            def prem(state, idx):
                return bor(*[band(idx == j, state[POOL[j]]) for j in range(len(POOL))])
            c1, c2 = prem(cur, r["p1"]), prem(cur, r["p2"])
            cond = ite(r["two"], ite(r["or"], bor(c1, c2), band(c1, c2)), c1)
            d1, d2 = prem(cur_conj, r["p1"]), prem(cur_conj, r["p2"])
            cond_conj = band(bnot(band(r["two"], r["or"])), ite(r["two"], band(d1, d2), d1))
            for j, t in enumerate(TARGETS):
                nxt[t] = bor(nxt[t], band(r["t"] == j, cond))
                nxt_conj[t] = bor(nxt_conj[t], band(r["t"] == j, cond_conj))
        cur, cur_conj = nxt, nxt_conj
        out.append((dict(cur), dict(cur_conj)))
    return out


def read_facts(h, name, vi):
    """implementation facts -> dict field -> (present, is-true)"""
    ip = h.ip
    out = {}
    for k in TARGETS:
        g = ip.deref(h.call("Facts::get", [h.get(name), S(k)]))
        pres = ip.tag_eq(g, 1)
        val = False
        if g.pl.get(1):
            v = ip.deref(g.pl[1][0])
            if v.pl.get(vi["Boolean"]):
                val = band(ip.tag_eq(v, vi["Boolean"]), v.pl[vi["Boolean"]][0])
        out[k] = (pres, val)
    return out


def mk_engine(h, name, strategy_term, max_depth, memo, max_solutions=1):
    ip = h.ip
    si = {n: i for i, (n, _) in enumerate(ip.enums["SearchStrategy"])}
    cfg = St("BackwardConfig", {"max_depth": max_depth, "strategy": En("SearchStrategy", strategy_term, {}),
                                "enable_memoization": memo, "max_solutions": I(max_solutions, "usize")})
    h.let(name, h.call("BackwardEngine::with_config", [h.get("kb"), cfg]))
    return si


def decode_common(m, R):
    rs = []
    for i in range(R):
        r = {"name": "r%d" % i, "concludes": TARGETS[m["r%d_target" % i]], "premises": [POOL[m["r%d_p1" % i]]]}
        if m["r%d_two" % i]:
            r["premises"].append(POOL[m["r%d_p2" % i]])
            r["join"] = "or" if m["r%d_or" % i] else "and"
        rs.append(r)
    return rs


def decode_facts(m, prefix="f"):
    d = {}
    for k in POOL:
        if m["%s_has_%s" % (prefix, k)]:
            d[k] = m["%s_val_%s" % (prefix, k)]
    if m["%s_has_g" % prefix]:
        d["g"] = False
    return d


RUST_PRELUDE = """
use rust_rule_engine::backward::backward_engine::{BackwardConfig, BackwardEngine};
use rust_rule_engine::backward::search::SearchStrategy;
use rust_rule_engine::engine::facts::Facts;
use rust_rule_engine::engine::knowledge_base::KnowledgeBase;
use rust_rule_engine::engine::rule::{Condition, ConditionGroup, Rule};
use rust_rule_engine::types::{ActionType, Operator, Value};
use std::collections::BTreeMap;
fn c(f: &str) -> ConditionGroup { ConditionGroup::single(Condition::new(f.to_string(), Operator::Equal, Value::Boolean(true))) }
fn kb(rules: &Vec<(&str, Vec<&str>, bool)>) -> KnowledgeBase {
    let kb = KnowledgeBase::new("kb");
    for (i, (t, ps, or)) in rules.iter().enumerate() {
        let cg = if ps.len() == 1 { c(ps[0]) } else if *or { ConditionGroup::or(c(ps[0]), c(ps[1])) } else { ConditionGroup::and(c(ps[0]), c(ps[1])) };
        kb.add_rule(Rule::new(format!("r{}", i), cg, vec![ActionType::Set { field: t.to_string(), value: Value::Boolean(true) }])).unwrap();
    }
    kb
}
fn facts(init: &Vec<(&str, bool)>) -> Facts { let f = Facts::new(); for (k, v) in init { f.set(k, Value::Boolean(*v)); } f }
fn snapshot(f: &Facts) -> BTreeMap<String, String> { f.get_all_facts().into_iter().map(|(k, v)| (k, format!("{:?}", v))).collect() }
fn levels(rules: &Vec<(&str, Vec<&str>, bool)>, init: &Vec<(&str, bool)>, n: usize, conj_only: bool) -> Vec<Vec<String>> {
    let mut cur: Vec<String> = init.iter().filter(|(_, v)| *v).map(|(k, _)| k.to_string()).collect();
    let mut out = vec![cur.clone()];
    for _ in 0..n {
        let mut nxt = cur.clone();
        for (t, ps, or) in rules {
            if conj_only && ps.len() == 2 && *or { continue; }
            let holds = if ps.len() == 2 && *or { ps.iter().any(|p| cur.contains(&p.to_string())) } else { ps.iter().all(|p| cur.contains(&p.to_string())) };
            if holds && !nxt.contains(&t.to_string()) { nxt.push(t.to_string()); }
        }
        cur = nxt; out.push(cur.clone());
    }
    out
}
"""


def rust_rules(rules):
    return "vec![%s]" % ", ".join('("%s", vec![%s], %s)' % (r["concludes"], ", ".join('"%s"' % p for p in r["premises"]),
                                                            "true" if r.get("join") == "or" else "false") for r in rules)


def rust_facts(d):
    return "vec![%s]" % ", ".join('("%s", %s)' % (k, str(v).lower()) for k, v in d.items())
