"""C12 — windows hold exactly the events of their time span; aggregates follow (engine E3, rsym).

Real code executed symbolically:
  record     : TimeWindow::new / record / events            (src/streaming/window.rs)
  manager    : WindowManager::new / process_event / calculate_window_start / cleanup_expired_windows,
               TimeWindow::add_event / contains_timestamp / is_expired
  stream     : WindowedStream::new (tumbling), WindowConfig::tumbling   (src/streaming/operators.rs)
  aggregates : TimeWindow::count / sum / average / min / max, StreamEvent::get_numeric
"""
import z3

from hlib import *  # noqa: F401,F403

ID = "C12"
FEATURES = ["streaming"]
FILES = ["types.rs", "streaming/event.rs", "streaming/window.rs", "streaming/operators.rs"]
FUNCTIONS = ["TimeWindow::new", "TimeWindow::record", "TimeWindow::add_event", "TimeWindow::contains_timestamp",
             "TimeWindow::is_expired", "TimeWindow::events", "TimeWindow::count", "TimeWindow::sum", "TimeWindow::average",
             "TimeWindow::min", "TimeWindow::max", "WindowManager::new", "WindowManager::process_event",
             "WindowManager::calculate_window_start", "WindowManager::cleanup_expired_windows",
             "WindowManager::active_windows", "WindowedStream::new", "WindowedStream::windows",
             "WindowConfig::tumbling", "StreamEvent::get_numeric"]
TS_MAX = 2**62
INTS = [-7, 0, 1, 3, 2**40, -(2**53) - 1]
FLOATS = [-2.5, 0.0, -0.0, 0.1, 0.2, 3.0, 1e9, 1e-9, 9007199254740993.0]
TIERS = {
    "quick": [{"kind": "record", "K": 4}, {"kind": "manager", "K": 3, "w": 5}, {"kind": "stream", "K": 3, "w": 1000},
              {"kind": "aggregates", "K": 2}],
    "thorough": [{"kind": "record", "K": 6}, {"kind": "manager", "K": 4, "w": 1}, {"kind": "manager", "K": 4, "w": 1000},
                 {"kind": "stream", "K": 4, "w": 1}, {"kind": "stream", "K": 4, "w": 7}, {"kind": "aggregates", "K": 3}],
}
ASSUMPTIONS = [
    "timestamps range over 0..2^62 ms (u64 values near 2^64 make `now + 1` / `start + duration` overflow; outside the claim)",
    "window lengths for tumbling alignment are concrete (quick 5 and 1000 ms; thorough 1, 7, 1000 plus a VERIF_SEED-derived value); sliding duration and retention cap are symbolic",
    "events are identified by metadata.sequence; id/type/source strings are constants",
    "aggregates: payload field 'v' is absent, Integer (one of %s), Number (one of %s) or a String; NaN/inf inputs outside the claim" % (INTS, FLOATS),
    "retention cap evicts oldest-first in arrival order (the deque front)",
    "Vec/VecDeque/HashMap are bounded slot models (bound obligations checked); HashMap iteration order = one fixed order",
]
BOUNDS_NOTE = ("bounds: K events per history (see runs[].bounds). WindowedStream sliding/session construction, StreamAlphaNode (wall clock) "
               "and KeyedWindowedStream are outside the claim")


def seeded_params(tier, seed):
    if tier != "thorough":
        return []
    w = 2 + (seed * 7919 + 13) % 997
    return [{"kind": "manager", "K": 3, "w": w}, {"kind": "stream", "K": 3, "w": w}]


def event(ts, seq, data=None):
    return St("StreamEvent", {
        "id": S("e"), "event_type": S("T"), "data": data if data is not None else Mp([]),
        "metadata": St("EventMetadata", {"timestamp": ts, "source": S("s"), "sequence": I(seq, "u64"), "tags": Mp([])}),
    })


def dur(ms):
    return St("Duration", {"ms": I(ms, "u128")})


def zi(x):
    return x.z() if isinstance(x, I) else (z3.IntVal(x) if isinstance(x, int) else x)


def holds_seq(ip, evs, i):
    """bool term: the event container holds an event with sequence i; and how many"""
    terms = [band(p, ip.eq(e.f["metadata"].f["sequence"], I(i))) for p, e in ip.bi.vec_seq(evs)]
    return terms


def run(kind, K, w=None, witness=False):
    h = Harness(FILES, cap=K + 1, loop_bound=K + 3, rec_bound=4)
    ip = h.ip
    wt = {n: i for i, (n, _) in enumerate(ip.enums["WindowType"])}
    ts = [h.int("ts%d" % i, 0, TS_MAX).v for i in range(K)]
    res_extra = {}
    if kind == "record":
        d = h.int("duration_ms", 0, 2**40).v
        cap = h.int("max_events", 1, K + 1).v
        h.let("win", h.call("TimeWindow::new", [En("WindowType", wt["Sliding"], {}), dur(d), I(0, "u64"), I(cap, "usize")]))
        win = h.ref("win")
        keep = []
        saw_ooo = False
        saw_cap = False
        for k in range(K):
            h.tag = 'step%d' % k
            h.call("TimeWindow::record", [win, event(I(ts[k], "u64"), k)])
            lo = z3.If(ts[k] - d < 0, 0, ts[k] - d)
            keep = [band(b, ts[i] >= lo) for i, b in enumerate(keep)] + [True]
            cnt = z3.Sum([z3.If(zbool(b), 1, 0) for b in keep])
            # retention cap: keep only the last `cap` kept events in arrival order
            newkeep = []
            for i, b in enumerate(keep):
                suffix = z3.Sum([z3.If(zbool(x), 1, 0) for x in keep[i:]])
                newkeep.append(band(b, suffix <= cap))
            saw_cap = bor(saw_cap, cnt > cap)
            keep = newkeep
            if k >= 1:
                saw_ooo = bor(saw_ooo, band(ts[k] < ts[k - 1], *[True]))
            w_ = h.get("win")
            evs = w_.f["events"]
            for i in range(k + 1):
                terms = holds_seq(ip, evs, i)
                held = bor(*terms)
                older = ts[i] < lo
                h.require(bor(bnot(held), bnot(older)),
                          "C12: a retained event is older than the window duration relative to the recorded event")
                h.require(bor(bnot(keep[i]), held), "C12: a younger event was dropped although the retention cap was not exceeded")
                h.require(bor(bnot(held), keep[i]), "C12: retained events differ from the reference (cap eviction must be oldest-first)")
                h.require(z3.Sum([z3.If(zbool(t), 1, 0) for t in terms]) <= 1, "C12: an event is held twice")
            h.require(ip.eq(I(evs.n), I(z3.Sum([z3.If(zbool(b), 1, 0) for b in keep]))), "C12: window size differs from the reference")
            h.require(ip.eq(w_.f["start_time"], I(lo)), "C12: sliding start is not recorded_timestamp - duration (saturating)")
        h.cover(saw_ooo, "an event arrived out of order")
        h.cover(saw_cap, "the retention cap evicted an event")
    elif kind in ("manager", "stream"):
        assert w is not None
        if kind == "manager":
            maxw = h.int("max_windows", 1, K + 1).v
            h.let("m", h.call("WindowManager::new", [En("WindowType", wt["Tumbling"], {}), dur(w), I(K + 1, "usize"), I(maxw, "usize")]))
            m = h.ref("m")
            saw_two = False
            for k in range(K):
                h.tag = 'step%d' % k
                h.call("WindowManager::process_event", [m, event(I(ts[k], "u64"), k)])
                wins = ip.deref(h.call("WindowManager::active_windows", [h.get("m")]))
                aligned = ts[k] - ts[k] % w
                hits = []
                for p, win in ip.bi.vec_seq(wins):
                    inw = bor(*holds_seq(ip, win.f["events"], k))
                    hits.append(band(p, inw))
                    h.require(bor(bnot(band(p, inw)), band(ip.eq(win.f["start_time"], I(aligned)), ip.eq(win.f["end_time"], I(aligned + w)))),
                              "C12: an event was placed in a window that is not the aligned interval containing its timestamp")
                    # every held event lies inside its window's span, spans are aligned
                    h.require(bor(bnot(p), ip.eq(I(zi(win.f["start_time"]) % w), I(0))), "C12: a tumbling window is not aligned")
                    h.require(bor(bnot(p), ip.eq(win.f["end_time"], I(zi(win.f["start_time"]) + w))), "C12: window end != start + duration")
                    for pe, e in ip.bi.vec_seq(win.f["events"]):
                        t = e.f["metadata"].f["timestamp"]
                        h.require(bor(bnot(band(p, pe)), band(ip.bi.int_cmp(">=", t, win.f["start_time"]), ip.bi.int_cmp("<", t, win.f["end_time"]))),
                                  "C12: a window holds an event outside its span")
                h.require(z3.Sum([z3.If(zbool(x), 1, 0) for x in hits] + [z3.IntVal(0)]) == 1,
                          "C12: the processed event is not in exactly one window")
                # two active windows never share a span
                ws_ = ip.bi.vec_seq(wins)
                for a in range(len(ws_)):
                    for b in range(a + 1, len(ws_)):
                        h.require(bor(bnot(band(ws_[a][0], ws_[b][0])), bnot(ip.eq(ws_[a][1].f["start_time"], ws_[b][1].f["start_time"]))),
                                  "C12: two active windows cover the same interval")
                saw_two = bor(saw_two, ip.bi.int_cmp(">=", I(wins.n), I(2)))
            h.cover(saw_two, "two windows were active at once")
        else:
            evs = Vc([event(I(ts[k], "u64"), k) for k in range(K)])
            cfg = h.call("WindowConfig::tumbling", [dur(w)])
            h.let("ws", h.call("WindowedStream::new", [evs, cfg]))
            wins = ip.deref(h.call("WindowedStream::windows", [h.get("ws")]))
            for k in range(K):
                aligned = ts[k] - ts[k] % w
                hits = []
                for p, win in ip.bi.vec_seq(wins):
                    inw = bor(*holds_seq(ip, win.f["events"], k))
                    hits.append(band(p, inw))
                    h.require(bor(bnot(band(p, inw)), band(ip.eq(win.f["start_time"], I(aligned)), ip.eq(win.f["end_time"], I(aligned + w)))),
                              "C12: an event was placed in a window that is not the aligned interval containing its timestamp")
                h.require(z3.Sum([z3.If(zbool(x), 1, 0) for x in hits] + [z3.IntVal(0)]) == 1,
                          "C12: an event is not in exactly one window")
            ws_ = ip.bi.vec_seq(wins)
            for a in range(len(ws_)):
                for b in range(a + 1, len(ws_)):
                    h.require(bor(bnot(band(ws_[a][0], ws_[b][0])), bnot(ip.eq(ws_[a][1].f["start_time"], ws_[b][1].f["start_time"]))),
                              "C12: two windows cover the same interval")
            tot = z3.Sum([z3.If(zbool(p), zi(I(win.f["events"].n)), 0) for p, win in ws_] + [z3.IntVal(0)])
            h.require(tot == K, "C12: windows do not hold exactly the offered events")
            h.cover(ip.bi.int_cmp(">=", I(wins.n), I(2)), "events fell into two windows")
            h.cover(bor(*[band(p, ip.bi.int_cmp(">=", I(win.f["events"].n), I(2))) for p, win in ws_]), "a window holds two events")
    elif kind == "aggregates":
        vi = {n: i for i, (n, _) in enumerate(ip.enums["Value"])}
        h.let("win", h.call("TimeWindow::new", [En("WindowType", wt["Sliding"], {}), dur(10**9), I(0, "u64"), I(K + 1, "usize")]))
        win = h.ref("win")
        nums = []
        for k in range(K):
            has = h.bool("has%d" % k)
            tag = h.int("tag%d" % k, 0, 2).v           # 0 Integer, 1 Number, 2 String
            isel = h.int("isel%d" % k, 0, len(INTS) - 1).v
            iv = z3.IntVal(INTS[-1])
            for j in range(len(INTS) - 2, -1, -1):
                iv = z3.If(isel == j, z3.IntVal(INTS[j]), iv)
            fsel = h.int("fsel%d" % k, 0, len(FLOATS) - 1).v
            fv = z3.FPVal(FLOATS[-1], V.FP)
            for j in range(len(FLOATS) - 2, -1, -1):
                fv = z3.If(fsel == j, z3.FPVal(FLOATS[j], V.FP), fv)
            vtag = z3.If(tag == 0, vi["Integer"], z3.If(tag == 1, vi["Number"], vi["String"]))
            val = En("Value", vtag, {vi["Integer"]: [I(iv, "i64")], vi["Number"]: [F(fv)], vi["String"]: [S("x")]})
            data = Mp([[has, S("v"), val]])
            h.assume(ts[k] < 10**9)
            ok_ = h.call("TimeWindow::add_event", [win, event(I(ts[k], "u64"), k, data)])
            h.require(ok_, "C12: add_event refused an event inside the span")
            numeric = band(has, tag != 2)
            from builtins_rs import int_to_fp
            asf = z3.If(tag == 0, int_to_fp(iv), fv)
            nums.append((numeric, asf))
        wv = h.get("win")
        cnt = h.call("TimeWindow::count", [wv])
        sm = h.call("TimeWindow::sum", [wv, S("v")])
        av = ip.deref(h.call("TimeWindow::average", [wv, S("v")]))
        mn = ip.deref(h.call("TimeWindow::min", [wv, S("v")]))
        mx = ip.deref(h.call("TimeWindow::max", [wv, S("v")]))
        h.require(ip.eq(cnt, I(K)), "C12: count differs from the number of events in the window")
        acc = z3.FPVal(0.0, V.FP)
        n = z3.IntVal(0)
        lo = None
        hi = None
        anyn = False
        for numeric, x in nums:
            acc = z3.If(zbool(numeric), z3.fpAdd(V.RM, acc, x), acc)
            n = n + z3.If(zbool(numeric), 1, 0)
            lo = x if lo is None else z3.If(zbool(band(numeric, bor(bnot(anyn), z3.fpLT(x, lo)))), x, lo)
            hi = x if hi is None else z3.If(zbool(band(numeric, bor(bnot(anyn), z3.fpGT(x, hi)))), x, hi)
            anyn = bor(anyn, numeric)
        h.require(z3.fpEQ(sm.z(), acc), "C12: sum differs from the fold over the window's numeric values")
        h.require(zbool(ip.tag_eq(av, 1)) == zbool(anyn), "C12: average is Some exactly when a numeric value exists")
        h.require(zbool(ip.tag_eq(mn, 1)) == zbool(anyn), "C12: min is Some exactly when a numeric value exists")
        h.require(zbool(ip.tag_eq(mx, 1)) == zbool(anyn), "C12: max is Some exactly when a numeric value exists")
        nfp = z3.FPVal(float(K), V.FP)
        for j in range(K - 1, -1, -1):
            nfp = z3.If(n == j, z3.FPVal(float(j), V.FP), nfp)
        with ip.under(anyn):
            h.require(z3.fpEQ(av.pl[1][0].z(), z3.fpDiv(V.RM, acc, nfp)),
                      "C12: average differs from sum / number of numeric values")
            h.require(z3.fpEQ(mn.pl[1][0].z(), lo), "C12: min differs from the smallest numeric value")
            h.require(z3.fpEQ(mx.pl[1][0].z(), hi), "C12: max differs from the largest numeric value")
        h.cover(band(anyn, bnot(band(*[x for x, _ in nums]))), "numeric and non-numeric/missing fields mixed")
    else:
        raise ValueError(kind)
    if witness:
        h.require(False, "C12 witness: end of harness reached")
    res = h.decide()
    res["bounds"] = {"kind": kind, "events": K, "window_ms": w}
    res["harness"] = h
    res["kind"], res["K"], res["w"] = kind, K, w
    return res


def decode(res, m):
    K = res["K"]
    t = {"kind": res["kind"], "window_ms": res["w"], "timestamps": [m["ts%d" % i] for i in range(K)]}
    if res["kind"] == "record":
        t["duration_ms"] = m["duration_ms"]
        t["max_events"] = m["max_events"]
    if res["kind"] == "manager":
        t["max_windows"] = m["max_windows"]
    if res["kind"] == "aggregates":
        t["values"] = [None if not m["has%d" % i] else (["int", INTS[m["isel%d" % i]]] if m["tag%d" % i] == 0 else
                       (["num", FLOATS[m["fsel%d" % i]]] if m["tag%d" % i] == 1 else ["str", "x"])) for i in range(K)]
    return t


def finding_key(msg, trace):
    return "%s|%s" % (trace["kind"], msg)


def replay_source(t):
    ts = ", ".join(str(x) for x in t["timestamps"])
    common = """
use rust_rule_engine::streaming::event::StreamEvent;
use rust_rule_engine::streaming::window::*;
use rust_rule_engine::streaming::operators::*;
use rust_rule_engine::types::Value;
use std::collections::HashMap;
use std::time::Duration;
fn ev(ts: u64, seq: u64, data: HashMap<String, Value>) -> StreamEvent {
    let mut e = StreamEvent::with_timestamp("T", data, "s", ts);
    e.metadata.sequence = seq;
    e
}
"""
    if t["kind"] == "record":
        return common + """
fn main() {
    let ts: Vec<u64> = vec![%s];
    let d: u64 = %d; let cap: usize = %d;
    let mut w = TimeWindow::new(WindowType::Sliding, Duration::from_millis(d), 0, cap);
    let mut keep: Vec<u64> = Vec::new();
    let mut bad: Vec<String> = Vec::new();
    for (k, t) in ts.iter().enumerate() {
        w.record(ev(*t, k as u64, HashMap::new()));
        let lo = t.saturating_sub(d);
        keep.retain(|i| ts[*i as usize] >= lo);
        keep.push(k as u64);
        while keep.len() > cap { keep.remove(0); }
        let got: Vec<u64> = w.events().iter().map(|e| e.metadata.sequence).collect();
        for e in w.events().iter() { if e.metadata.timestamp < lo { bad.push(format!("after record #{}: retained event #{} (ts {}) older than {}", k, e.metadata.sequence, e.metadata.timestamp, lo)); } }
        let mut g = got.clone(); g.sort(); let mut kk = keep.clone(); kk.sort();
        if g != kk { bad.push(format!("after record #{}: retained {:?} != reference {:?}", k, g, kk)); }
        if w.start_time != lo { bad.push("start".into()); }
    }
    if bad.is_empty() { println!("NOT-REPRODUCED"); } else { println!("REPRODUCED: {:?}", bad); }
}
""" % (ts, t["duration_ms"], t["max_events"])
    if t["kind"] in ("manager", "stream"):
        body = """
    let mut m = WindowManager::new(WindowType::Tumbling, Duration::from_millis(w), ts.len() + 1, %d);
    for (k, t) in ts.iter().enumerate() {
        m.process_event(ev(*t, k as u64, HashMap::new()));
        check(m.active_windows(), &ts, &[k], w, &mut bad);
    }
""" % t.get("max_windows", 1) if t["kind"] == "manager" else """
    let evs: Vec<StreamEvent> = ts.iter().enumerate().map(|(k, t)| ev(*t, k as u64, HashMap::new())).collect();
    let s = WindowedStream::new(evs, WindowConfig::tumbling(Duration::from_millis(w)));
    let all: Vec<usize> = (0..ts.len()).collect();
    check(s.windows(), &ts, &all, w, &mut bad);
    let tot: usize = s.windows().iter().map(|x| x.count()).sum();
    if tot != ts.len() { bad.push("windows do not hold exactly the offered events".into()); }
"""
        return common + """
fn check(wins: &[TimeWindow], ts: &[u64], must: &[usize], w: u64, bad: &mut Vec<String>) {
    for k in must {
        let a = ts[*k] - ts[*k] %% w;
        let holders: Vec<&TimeWindow> = wins.iter().filter(|x| x.events().iter().any(|e| e.metadata.sequence == *k as u64)).collect();
        if holders.len() != 1 { bad.push(format!("event #{} is in {} windows", k, holders.len())); }
        for x in holders { if x.start_time != a || x.end_time != a + w { bad.push(format!("event #{} (ts {}) in window [{}, {}) instead of [{}, {})", k, ts[*k], x.start_time, x.end_time, a, a + w)); } }
    }
    for x in wins {
        if x.start_time %% w != 0 || x.end_time != x.start_time + w { bad.push("window not aligned".into()); }
        for e in x.events().iter() { if e.metadata.timestamp < x.start_time || e.metadata.timestamp >= x.end_time { bad.push("event outside span".into()); } }
    }
    for i in 0..wins.len() { for j in i + 1..wins.len() { if wins[i].start_time == wins[j].start_time { bad.push("two windows cover the same interval".into()); } } }
}
fn main() {
    let ts: Vec<u64> = vec![%s];
    let w: u64 = %d;
    let mut bad: Vec<String> = Vec::new();
%s
    if bad.is_empty() { println!("NOT-REPRODUCED"); } else { println!("REPRODUCED: {:?}", bad); }
}
""" % (ts, t["window_ms"], body)
    if t["kind"] == "aggregates":
        vals = []
        for v in t["values"]:
            if v is None:
                vals.append("None")
            elif v[0] == "int":
                vals.append("Some(Value::Integer(%d))" % v[1])
            elif v[0] == "num":
                vals.append("Some(Value::Number(f64::from_bits(%s)))" % fp_bits(v[1]))
            else:
                vals.append('Some(Value::String("x".to_string()))')
        return common + """
fn main() {
    let ts: Vec<u64> = vec![%s];
    let vals: Vec<Option<Value>> = vec![%s];
    let mut w = TimeWindow::new(WindowType::Sliding, Duration::from_millis(1_000_000_000), 0, ts.len() + 1);
    let mut nums: Vec<f64> = Vec::new();
    let mut bad: Vec<String> = Vec::new();
    for (k, t) in ts.iter().enumerate() {
        let mut d = HashMap::new();
        if let Some(v) = &vals[k] { d.insert("v".to_string(), v.clone()); match v { Value::Integer(i) => nums.push(*i as f64), Value::Number(n) => nums.push(*n), _ => {} } }
        if !w.add_event(ev(*t, k as u64, d)) { bad.push("add_event refused".into()); }
    }
    if w.count() != ts.len() { bad.push("count".into()); }
    let mut s = 0.0f64; for x in &nums { s += *x; }
    if w.sum("v") != s { bad.push(format!("sum {} != {}", w.sum("v"), s)); }
    if nums.is_empty() {
        if w.average("v").is_some() || w.min("v").is_some() || w.max("v").is_some() { bad.push("Some on no numeric values".into()); }
    } else {
        let lo = nums.iter().cloned().fold(f64::INFINITY, f64::min); let hi = nums.iter().cloned().fold(f64::NEG_INFINITY, f64::max);
        if w.average("v") != Some(s / nums.len() as f64) { bad.push(format!("average {:?}", w.average("v"))); }
        if w.min("v") != Some(lo) { bad.push(format!("min {:?} != {}", w.min("v"), lo)); }
        if w.max("v") != Some(hi) { bad.push(format!("max {:?} != {}", w.max("v"), hi)); }
    }
    if bad.is_empty() { println!("NOT-REPRODUCED"); } else { println!("REPRODUCED: {:?}", bad); }
}
""" % (ts, ", ".join(vals))
    return None


def fp_bits(s):
    """float -> u64 bit pattern literal"""
    import struct
    x = float(s)
    return "0x%016xu64" % struct.unpack("<Q", struct.pack("<d", x))[0]


if __name__ == "__main__":
    import sys
    kind, K = sys.argv[1], int(sys.argv[2])
    w = int(sys.argv[3]) if len(sys.argv) > 3 else None
    r = run(kind, K, w)
    print(r["status"], r["covers"], r["inconclusive"][:5], "wall", r["wall_s"], "decide", r["decide_wall_s"])
    for msg, m in r["violations"]:
        print("VIOLATION", msg, decode(r, m))
