"""C06 (working-memory clause) — the three views of working memory agree (engine E3, rsym).

Clause decided: "At all times every active fact is found by its handle, under its type and in the
full listing, a retracted fact is found in none of them, and handles are never reused."

Real code executed symbolically: src/rete/working_memory.rs — WorkingMemory::{new, insert, update,
retract, get, get_by_type, get_all_facts, get_all_handles, clear, stats}, FactMetadata::default.

Histories: K operations with symbolic arguments: insert(type in {A,B,C}) | update(h) | retract(h) | clear
with h ranging over every handle id 1..K+1 (issued, retracted or never issued).
"""
import z3

from hlib import *  # noqa: F401,F403

ID = "C06"
FEATURES = []
FILES = ["types.rs", "rete/facts.rs", "rete/working_memory.rs"]
FUNCTIONS = ["WorkingMemory::new", "WorkingMemory::insert", "WorkingMemory::update", "WorkingMemory::retract",
             "WorkingMemory::get", "WorkingMemory::get_by_type", "WorkingMemory::get_all_facts",
             "WorkingMemory::get_all_handles", "WorkingMemory::clear", "WorkingMemory::stats"]
TYPES = ["A", "B", "C"]
TIERS = {
    "quick": [{"K": 6, "types": 2}],
    "thorough": [{"K": 8, "types": 2}, {"K": 7, "types": 3}],
}
ASSUMPTIONS = [
    "fact payloads are empty TypedFacts (the views never read them); fact types from {A,B,C}",
    "Instant::now() is a strictly increasing counter; AtomicU64 is a plain integer (single-threaded model)",
    "ONLY the working-memory clause of C06 is decided; rule firing (IncrementalEngine::fire_all, propagation, action closures) is NOT covered",
]
BOUNDS_NOTE = "bounds: K operations (see runs[].bounds); the streaming insert path and to_typed_facts are outside the claim"


def pick(h, name, options):
    i = h.int(name, 0, len(options) - 1).v
    s = S(options[-1])
    for j in range(len(options) - 2, -1, -1):
        s = ite(i == j, S(options[j]), s)
    return i, s


def fh(x):
    return St("FactHandle", {"0": x if isinstance(x, I) else I(x, "u64")})


def run(K, types=2, witness=False):
    TS = TYPES[:types]
    h = Harness(FILES, cap=K + 1, loop_bound=K + 3, rec_bound=4)
    ip = h.ip
    h.let("wm", h.call("WorkingMemory::new", []))
    wm = h.ref("wm")
    HN = range(1, K + 2)
    issued = z3.IntVal(0)                 # handles 1..issued were handed out
    active = {x: False for x in HN}
    ftype = {x: z3.IntVal(0) for x in HN}
    saw_retract = False
    saw_clear_then_insert = False
    cleared = False
    for step in range(K):
        h.tag = "step%d" % step
        op = h.int("op%d" % step, 0, 3).v
        ti, ts = pick(h, "type%d" % step, TS)
        hx = h.int("h%d" % step, 1, K + 1).v
        with ip.under(op == 0):
            got = ip.deref(ip.call("WorkingMemory::insert", [wm, ts, h.call("TypedFacts::new", [])]))
            # handles are never reused: strictly above every handle issued so far
            h.require(ip.eq(got.f["0"], I(issued + 1)), "C06: insert returned a handle that is not fresh (handles must never be reused)")
            saw_clear_then_insert = bor(saw_clear_then_insert, band(ip.g, cleared))
        with ip.under(op == 1):
            r1 = ip.deref(ip.call("WorkingMemory::update", [wm, fh(I(hx, "u64")), h.call("TypedFacts::new", [])]))
        with ip.under(op == 2):
            r2 = ip.deref(ip.call("WorkingMemory::retract", [wm, fh(I(hx, "u64"))]))
        with ip.under(op == 3):
            ip.call("WorkingMemory::clear", [wm])
        live_h = bor(*[band(hx == x, active[x]) for x in HN])
        with ip.under(op == 1):
            h.require(zbool(ip.tag_eq(r1, 0)) == zbool(live_h), "C06: update must succeed exactly on an active fact")
        with ip.under(op == 2):
            h.require(zbool(ip.tag_eq(r2, 0)) == zbool(live_h), "C06: retract must succeed exactly on an active fact")
            saw_retract = bor(saw_retract, band(ip.g, live_h))
        newh = issued + 1
        for x in HN:
            ins = band(op == 0, newh == x)
            ftype[x] = z3.If(zbool(ins), ti, ftype[x])
            active[x] = band(bor(active[x], ins), bnot(band(op == 2, hx == x)), bnot(op == 3))
        issued = z3.If(op == 0, issued + 1, issued)
        cleared = bor(cleared, op == 3)
        # the three views -----------------------------------------------------------------
        st = h.get("wm")
        allf = ip.deref(h.call("WorkingMemory::get_all_facts", [st]))
        allh = ip.deref(h.call("WorkingMemory::get_all_handles", [st]))
        cnt = z3.Sum([z3.If(zbool(active[x]), 1, 0) for x in HN])
        h.require(ip.eq(I(allf.n), I(cnt)), "C06: the full listing differs from the active facts")
        h.require(ip.eq(I(allh.n), I(cnt)), "C06: the handle listing differs from the active facts")
        bytype = {t: ip.deref(h.call("WorkingMemory::get_by_type", [st, S(t)])) for t in TS}
        for t in TS:
            want = z3.Sum([z3.If(zbool(band(active[x], ftype[x] == TS.index(t))), 1, 0) for x in HN])
            h.require(ip.eq(I(bytype[t].n), I(want)), "C06: the per-type view differs from the active facts of that type")
        for x in HN:
            g = ip.deref(h.call("WorkingMemory::get", [st, fh(x)]))
            h.require(zbool(ip.tag_eq(g, 1)) == zbool(active[x]), "C06: lookup by handle differs from 'active'")
            inall = bor(*[band(p, ip.eq(ip.deref(f).f["handle"].f["0"], I(x))) for p, f in ip.bi.vec_seq(allf)])
            inh = bor(*[band(p, ip.eq(hh.f["0"], I(x))) for p, hh in ip.bi.vec_seq(allh)])
            h.require(zbool(inall) == zbool(active[x]), "C06: the full listing differs from the active facts")
            h.require(zbool(inh) == zbool(active[x]), "C06: the handle listing differs from the active facts")
            for t in TS:
                int_ = bor(*[band(p, ip.eq(ip.deref(f).f["handle"].f["0"], I(x))) for p, f in ip.bi.vec_seq(bytype[t])])
                h.require(zbool(int_) == zbool(band(active[x], ftype[x] == TS.index(t))), "C06: the per-type view differs from the active facts of that type")
    h.cover(saw_retract, "an active fact was retracted")
    h.cover(saw_clear_then_insert, "a fact was inserted after clear")
    if witness:
        h.require(False, "C06 witness")
    res = h.decide()
    res["bounds"] = {"operations": K, "types": TS}
    res["harness"] = h
    res["K"], res["TS"] = K, TS
    return res


def decode(res, m):
    out = []
    for s in range(res["K"]):
        op = m["op%d" % s]
        if op == 0:
            out.append({"op": "insert", "type": res["TS"][m["type%d" % s]]})
        elif op == 1:
            out.append({"op": "update", "handle": m["h%d" % s]})
        elif op == 2:
            out.append({"op": "retract", "handle": m["h%d" % s]})
        else:
            out.append({"op": "clear"})
    return out


def finding_key(msg, trace):
    return msg


def replay_source(trace):
    lines = []
    for o in trace:
        if o["op"] == "insert":
            lines.append('{ let h = wm.insert("%s".to_string(), TypedFacts::new()); if seen.contains(&h.id()) || h.id() <= maxid { bad.push(format!("handle {} reused / not fresh", h.id())); } seen.insert(h.id()); maxid = maxid.max(h.id()); active.insert(h.id(), "%s".to_string()); }' % (o["type"], o["type"]))
        elif o["op"] == "update":
            lines.append('{ let live = active.contains_key(&%d); if wm.update(FactHandle::new(%d), TypedFacts::new()).is_ok() != live { bad.push("update result".into()); } }' % (o["handle"], o["handle"]))
        elif o["op"] == "retract":
            lines.append('{ let live = active.contains_key(&%d); if wm.retract(FactHandle::new(%d)).is_ok() != live { bad.push("retract result".into()); } active.remove(&%d); }' % (o["handle"], o["handle"], o["handle"]))
        else:
            lines.append("wm.clear(); active.clear();")
        lines.append("check(&wm, &active, maxid, &mut bad);")
    return """
use rust_rule_engine::rete::facts::TypedFacts;
use rust_rule_engine::rete::working_memory::{FactHandle, WorkingMemory};
use std::collections::{BTreeMap, BTreeSet};
fn check(wm: &WorkingMemory, active: &BTreeMap<u64, String>, maxid: u64, bad: &mut Vec<String>) {
    let want: BTreeSet<u64> = active.keys().cloned().collect();
    let allf: BTreeSet<u64> = wm.get_all_facts().iter().map(|f| f.handle.id()).collect();
    let allh: BTreeSet<u64> = wm.get_all_handles().iter().map(|h| h.id()).collect();
    if wm.get_all_facts().len() != want.len() || allf != want { bad.push(format!("full listing {:?} != active {:?}", allf, want)); }
    if wm.get_all_handles().len() != want.len() || allh != want { bad.push(format!("handle listing {:?} != active {:?}", allh, want)); }
    for t in ["A", "B", "C"] {
        let bt: BTreeSet<u64> = wm.get_by_type(t).iter().map(|f| f.handle.id()).collect();
        let wt: BTreeSet<u64> = active.iter().filter(|(_, ty)| ty.as_str() == t).map(|(h, _)| *h).collect();
        if bt != wt || wm.get_by_type(t).len() != wt.len() { bad.push(format!("type {} view {:?} != {:?}", t, bt, wt)); }
    }
    for x in 1..=maxid + 1 { if wm.get(&FactHandle::new(x)).is_some() != active.contains_key(&x) { bad.push(format!("get({}) != active", x)); } }
}
fn main() {
    let mut wm = WorkingMemory::new();
    let mut active: BTreeMap<u64, String> = BTreeMap::new();
    let mut seen: BTreeSet<u64> = BTreeSet::new();
    let mut maxid = 0u64;
    let mut bad: Vec<String> = Vec::new();
    %s
    if bad.is_empty() { println!("NOT-REPRODUCED"); } else { println!("REPRODUCED: {:?}", bad); }
}
""" % "\n    ".join(lines)


if __name__ == "__main__":
    import sys
    r = run(int(sys.argv[1]), int(sys.argv[2]) if len(sys.argv) > 2 else 2)
    print(r["status"], r["covers"], r["inconclusive"][:5], "wall", r["wall_s"], "decide", r["decide_wall_s"])
    for msg, m in r["violations"]:
        print("VIOLATION", msg, decode(r, m))
