"""C08 — truth maintenance keeps exactly the supported facts (engine E3, rsym).

Real code executed symbolically: src/rete/tms.rs (TruthMaintenanceSystem::new,
add_explicit_justification, add_logical_justification, retract_with_cascade,
has_valid_justification, is_logical, is_explicit, Justification::*).

One solver query family covers every history of K operations over at most N handles:
  0 explicit insert of a fresh handle
  1 logical insert of a fresh handle, premises = any non-empty set of live handles
  2 extra logical justification for a live handle (premises: live handles other than itself)
  3 retract of a live handle (explicit or derived)
against an independent reference model (presence bits + support fixpoint in z3 terms).
"""
import z3

from hlib import *  # noqa: F401,F403

FILES = ["rete/working_memory.rs", "rete/tms.rs"]
FUNCTIONS = ["TruthMaintenanceSystem::new", "TruthMaintenanceSystem::add_explicit_justification",
             "TruthMaintenanceSystem::add_logical_justification", "TruthMaintenanceSystem::retract_with_cascade",
             "TruthMaintenanceSystem::has_valid_justification", "TruthMaintenanceSystem::is_logical",
             "TruthMaintenanceSystem::is_explicit", "Justification::explicit", "Justification::logical",
             "Justification::is_valid"]


def fh(x):
    return St("FactHandle", {"0": x if isinstance(x, I) else I(x, "u64")})


ID = "C08"
FEATURES = []
TIERS = {
    "quick": [{"N": 3, "K": 5, "covers": ["cascade2", "derived", "survivor"]}],
    "thorough": [{"N": 4, "K": 4, "covers": ["cascade2", "derived"]},
                 {"N": 4, "K": 5, "covers": ["cascade2", "derived", "survivor"]}],
}
ASSUMPTIONS = [
    "every premise is live when its justification is recorded; handles are fresh increasing integers (as allocated by WorkingMemory)",
    "Instant::now() modelled as a strictly increasing counter (created_at is never read by the TMS)",
    "HashMap/HashSet modelled as bounded slot lists with one fixed iteration order (slot order); Vec as bounded slot array",
    "source_rule strings are the constant \"r\" (never read by the cascade)",
    "a cyclic support (possible through extra justifications) is judged by the literal statement: a logical fact stays while some justification has all premises live (greatest fixpoint)",
]
BOUNDS_NOTE = ("bounds: N handles, K operations per history (see runs[].bounds); longer histories, more handles, and the engine-level "
               "application of the cascade to working memory (IncrementalEngine::retract) are outside the claim")


def run(N, K, covers=(), witness=False):
    h = Harness(FILES, cap=max(N, K) + 1, loop_bound=max(N, K) + 2, rec_bound=N + 1)
    ip = h.ip
    h.let("tms", h.call("TruthMaintenanceSystem::new", []))
    tms = h.ref("tms")
    HS_ = range(1, N + 1)

    # reference model ------------------------------------------------------
    n = z3.IntVal(0)                       # handles 1..n inserted
    present = {x: False for x in HS_}
    explicit = {x: False for x in HS_}
    logical = {x: False for x in HS_}
    userret = {x: False for x in HS_}
    justs = []                             # (active, fact Int, {x: premise bit})
    impl_present = {x: False for x in HS_}  # what an engine applying returned cascades holds

    def supported(x, pres):
        terms = [explicit[x]]
        for (act, f, bits) in justs:
            terms.append(band(act, f == x, *[bor(bnot(bits[y]), pres[y]) for y in HS_]))
        return bor(*terms)

    saw_cascade2 = False
    saw_survivor = False
    saw_derived_retract = False
    ops = []
    for step in range(K):
        h.tag = 'step%d' % step
        op = h.int("op%d" % step, 0, 3).v
        tgt = h.int("tgt%d" % step, 1, N).v
        bits = {x: h.bool("m%d_%d" % (step, x)) for x in HS_}
        ops.append((op, tgt, bits))
        any_bit = bor(*bits.values())
        bits_live = band(*[bor(bnot(bits[x]), present[x]) for x in HS_])
        tgt_live = bor(*[band(tgt == x, present[x]) for x in HS_])
        tgt_not_prem = band(*[bor(bnot(tgt == x), bnot(bits[x])) for x in HS_])
        room = n < N
        # admissible operations only
        h.assume(z3.Implies(op == 0, zbool(room)))
        h.assume(z3.Implies(op == 1, zbool(band(room, any_bit, bits_live))))
        h.assume(z3.Implies(op == 2, zbool(band(tgt_live, any_bit, bits_live, tgt_not_prem))))
        h.assume(z3.Implies(op == 3, zbool(tgt_live)))
        fresh = n + 1
        prem_vec = ip.bi.vec_from_seq([(bits[x], fh(x)) for x in HS_])

        with ip.under(op == 0):
            ip.call("TruthMaintenanceSystem::add_explicit_justification", [tms, fh(I(fresh, "u64"))])
        with ip.under(op == 1):
            ip.call("TruthMaintenanceSystem::add_logical_justification", [tms, fh(I(fresh, "u64")), S("r"), prem_vec])
        with ip.under(op == 2):
            ip.call("TruthMaintenanceSystem::add_logical_justification", [tms, fh(I(tgt, "u64")), S("r"), prem_vec])
        with ip.under(op == 3):
            got = ip.deref(ip.call("TruthMaintenanceSystem::retract_with_cascade", [tms, fh(I(tgt, "u64"))]))

        # model update ----------------------------------------------------
        is_new = bor(op == 0, op == 1)
        for x in HS_:
            newx = band(is_new, fresh == x)
            explicit[x] = bor(explicit[x], band(op == 0, fresh == x))
            logical[x] = bor(logical[x], band(op == 1, fresh == x), band(op == 2, tgt == x))
            present[x] = bor(present[x], newx)
            impl_present[x] = bor(impl_present[x], newx)
        justs.append((bor(op == 1, op == 2), z3.If(op == 1, fresh, tgt), bits))
        n = z3.If(zbool(is_new), n + 1, n)
        # retract: drop tgt then iterate the support fixpoint
        before = dict(present)
        pres = {x: band(present[x], bnot(band(op == 3, tgt == x))) for x in HS_}
        for x in HS_:
            userret[x] = bor(userret[x], band(op == 3, tgt == x))
        for _ in range(N):
            pres = {x: band(pres[x], bor(bnot(op == 3), supported(x, pres))) for x in HS_}
        want = {x: band(op == 3, before[x], bnot(pres[x]), bnot(tgt == x)) for x in HS_}
        present = pres

        with ip.under(op == 3):
            # (i) returned cascade == facts that lost support: no more, no fewer, no duplicates
            seq = ip.bi.vec_seq(got)
            gotm = {x: False for x in HS_}
            for j, (p, it) in enumerate(seq):
                idv = it.f["0"]
                for x in HS_:
                    hit = band(p, ip.eq(idv, I(x)))
                    h.require(bnot(band(hit, gotm[x])), "C08: cascade returned a handle twice")
                    gotm[x] = bor(gotm[x], hit)
                h.require(bor(bnot(p), *[ip.eq(idv, I(x)) for x in HS_]), "C08: cascade returned an unknown handle")
            for x in HS_:
                h.require(zbool(gotm[x]) == zbool(want[x]), "C08: cascade differs from the facts that lost support")
                impl_present[x] = band(impl_present[x], bnot(band(op == 3, bor(tgt == x, gotm[x]))))
            cnt = z3.Sum([z3.If(zbool(want[x]), 1, 0) for x in HS_])
            saw_cascade2 = bor(saw_cascade2, band(ip.g, cnt >= 2))
            for x in HS_:
                dep = bor(*[band(act, f == x, bor(*[band(bits_[y], tgt == y) for y in HS_])) for (act, f, bits_) in justs])
                saw_survivor = bor(saw_survivor, band(ip.g, present[x], bnot(explicit[x]), dep))
                saw_derived_retract = bor(saw_derived_retract, band(ip.g, tgt == x, bnot(explicit[x])))

        # invariants after every operation -------------------------------------
        for x in HS_:
            hx = fh(x)
            live = present[x]
            inserted = n >= x
            h.require(zbool(impl_present[x]) == zbool(live), "C08: live set differs from the reference")
            ie = ip.call("TruthMaintenanceSystem::is_explicit", [h.get("tms"), hx])
            il = ip.call("TruthMaintenanceSystem::is_logical", [h.get("tms"), hx])
            hv = ip.call("TruthMaintenanceSystem::has_valid_justification", [h.get("tms"), hx])
            h.require(zbool(ie) == zbool(band(live, explicit[x])), "C08: is_explicit wrong")
            h.require(zbool(il) == zbool(band(live, logical[x])), "C08: is_logical wrong")
            h.require(bor(bnot(live), hv), "C08: live fact without support")
            dropped = band(inserted, bnot(live), bnot(userret[x]))
            h.require(bor(bnot(dropped), bnot(explicit[x])), "C08: explicit fact removed by a cascade")
            h.require(bor(bnot(dropped), bnot(hv)), "C08: supported fact was cascaded away")

    if "cascade2" in covers:
        h.cover(saw_cascade2, "cascade of length >= 2")
    if "survivor" in covers:
        h.cover(saw_survivor, "fact survives on a second justification")
    if "derived" in covers:
        h.cover(saw_derived_retract, "derived fact retracted directly")
    if witness:
        h.require(False, "C08 witness: end of harness reached")
    res = h.decide()
    res["bounds"] = {"handles": N, "operations": K}
    res["harness"] = h
    res["ops"] = ops
    return res


def decode(res, m):
    h = res["harness"]
    out = []
    names = {0: "insert_explicit", 1: "insert_logical", 2: "add_justification", 3: "retract"}
    n = 0
    for step, (op, tgt, bits) in enumerate(res["ops"]):
        o = m["op%d" % step]
        t = m["tgt%d" % step]
        prem = [x for x in bits if m["m%d_%d" % (step, x)]]
        if o in (0, 1):
            n += 1
            out.append({"op": names[o], "handle": n, "premises": prem if o == 1 else []})
        elif o == 2:
            out.append({"op": names[o], "handle": t, "premises": prem})
        else:
            out.append({"op": names[o], "handle": t})
    return out


def finding_key(msg, trace):
    return msg


def replay_source(trace):
    ops = []
    for o in trace:
        k = {"insert_explicit": 0, "insert_logical": 1, "add_justification": 2, "retract": 3}[o["op"]]
        ops.append("(%d, %d, vec![%s])" % (k, o["handle"], ", ".join(str(p) for p in o.get("premises", []))))
    return """
use rust_rule_engine::rete::tms::TruthMaintenanceSystem;
use rust_rule_engine::rete::working_memory::FactHandle;
use std::collections::{BTreeMap, BTreeSet};

fn main() {
    let ops: Vec<(u8, u64, Vec<u64>)> = vec![%s];
    let mut tms = TruthMaintenanceSystem::new();
    let mut present: BTreeSet<u64> = BTreeSet::new();
    let mut explicit: BTreeSet<u64> = BTreeSet::new();
    let mut logical: BTreeSet<u64> = BTreeSet::new();
    let mut userret: BTreeSet<u64> = BTreeSet::new();
    let mut inserted: BTreeSet<u64> = BTreeSet::new();
    let mut impl_present: BTreeSet<u64> = BTreeSet::new();
    let mut justs: Vec<(u64, Vec<u64>)> = Vec::new();
    let mut bad: Vec<String> = Vec::new();
    for (k, h, prem) in ops {
        let fh = FactHandle::new(h);
        let pv: Vec<FactHandle> = prem.iter().map(|p| FactHandle::new(*p)).collect();
        match k {
            0 => { tms.add_explicit_justification(fh); explicit.insert(h); present.insert(h); inserted.insert(h); impl_present.insert(h); }
            1 => { tms.add_logical_justification(fh, "r".to_string(), pv); logical.insert(h); justs.push((h, prem.clone())); present.insert(h); inserted.insert(h); impl_present.insert(h); }
            2 => { tms.add_logical_justification(fh, "r".to_string(), pv); logical.insert(h); justs.push((h, prem.clone())); }
            _ => {
                let got = tms.retract_with_cascade(fh);
                let before = present.clone();
                present.remove(&h);
                userret.insert(h);
                loop {
                    let mut changed = false;
                    for x in present.clone() {
                        let sup = explicit.contains(&x) || justs.iter().any(|(f, p)| *f == x && p.iter().all(|q| present.contains(q)));
                        if !sup { present.remove(&x); changed = true; }
                    }
                    if !changed { break; }
                }
                let want: BTreeSet<u64> = before.iter().filter(|x| !present.contains(x) && **x != h).cloned().collect();
                let mut gotset: BTreeSet<u64> = BTreeSet::new();
                for g in &got { if !gotset.insert(g.id()) { bad.push(format!("cascade returned {} twice", g.id())); } }
                if gotset != want { bad.push(format!("cascade {:?} != facts that lost support {:?}", gotset, want)); }
                impl_present.remove(&h);
                for g in &gotset { impl_present.remove(g); }
            }
        }
        if impl_present != present { bad.push(format!("live set {:?} != reference {:?}", impl_present, present)); }
        for x in inserted.iter() {
            let fx = FactHandle::new(*x);
            let live = present.contains(x);
            if tms.is_explicit(fx) != (live && explicit.contains(x)) { bad.push(format!("is_explicit({}) wrong", x)); }
            if tms.is_logical(fx) != (live && logical.contains(x)) { bad.push(format!("is_logical({}) wrong", x)); }
            if live && !tms.has_valid_justification(fx) { bad.push(format!("live fact {} without support", x)); }
            if !live && !userret.contains(x) {
                if explicit.contains(x) { bad.push(format!("explicit fact {} removed by a cascade", x)); }
                if tms.has_valid_justification(fx) { bad.push(format!("supported fact {} was cascaded away", x)); }
            }
        }
    }
    let _unused: BTreeMap<u8, u8> = BTreeMap::new();
    if bad.is_empty() { println!("NOT-REPRODUCED"); } else { println!("REPRODUCED: {:?}", bad); }
}
""" % ", ".join(ops)


if __name__ == "__main__":
    import sys
    N, K = int(sys.argv[1]), int(sys.argv[2])
    r = run(N, K, covers=["cascade2", "derived"], witness=len(sys.argv) > 3)
    print(r["status"], r["covers"], r["inconclusive"], "wall", r["wall_s"], "decide", r["decide_wall_s"])
    for msg, m in r["violations"]:
        print("VIOLATION", msg, decode(r, m))
    for q in r["harness"].queries:
        if q["seconds"] > 1:
            print(q)
