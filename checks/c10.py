"""C10 (undo-frame clause) — undo frames on the fact store are transactional (engine E3, rsym).

Real code executed symbolically: src/engine/facts.rs — Facts::{new, set, set_nested,
set_nested_in_value, remove, get, begin_undo_frame, commit_undo_frame, rollback_undo_frame,
record_undo_for_key}.

Histories: K operations with symbolic arguments over keys {a,b,c}:
  begin | commit | rollback | set(k, Integer v) | set(k, Object{}) | set_nested("k.x", Integer v) | set_nested("k", Integer v) | remove(k)
Reference: a stack of full snapshots taken at begin; rollback restores the top snapshot,
commit only pops it (so an enclosing rollback still restores the enclosing snapshot).
"""
import z3

from hlib import *  # noqa: F401,F403

ID = "C10"
FEATURES = []
FILES = ["errors.rs", "types.rs", "engine/facts.rs"]
FUNCTIONS = ["Facts::new", "Facts::set", "Facts::set_nested", "Facts::set_nested_in_value", "Facts::remove", "Facts::get",
             "Facts::begin_undo_frame", "Facts::commit_undo_frame", "Facts::rollback_undo_frame", "Facts::record_undo_for_key"]
KEYS = ["a", "b", "c"]
TIERS = {
    "quick": [{"K": 5, "keys": 2}, {"K": 6, "keys": 1}],
    "thorough": [{"K": 6, "keys": 2}, {"K": 5, "keys": 3}],
}
ASSUMPTIONS = [
    "keys from {a,b,c}; values are Integer(0..3) or an Object with at most the field x; set_nested paths are 'k.x'",
    "commit/rollback are only issued while a frame is open (the property speaks about frames that were begun)",
    "RwLock/Arc are transparent (single-threaded model); HashMap/Vec bounded slot models",
    "the failed-proof half of C10 (BackwardEngine::query leaves the caller's facts untouched) is NOT covered (backward search engine outside the interpreter's reach in this revision)",
]
BOUNDS_NOTE = "bounds: K operations over `keys` keys (see runs[].bounds); deeper nesting and other value types outside the claim"


def pick(h, name, options):
    i = h.int(name, 0, len(options) - 1).v
    s = S(options[-1])
    for j in range(len(options) - 2, -1, -1):
        s = ite(i == j, S(options[j]), s)
    return i, s


def mi(c, a, b):
    """ite on raw model terms (python bool / z3 Bool / z3 Int)"""
    if isinstance(a, bool) or (isinstance(a, z3.ExprRef) and z3.is_bool(a)):
        return ite(c, a, b)
    if c is True:
        return a
    if c is False:
        return b
    return z3.If(zbool(c), a, b)


def run(K, keys=2, witness=False):
    KS = KEYS[:keys]
    h = Harness(FILES, cap=K + 2, loop_bound=K + 3, rec_bound=4)
    ip = h.ip
    vi = {n: i for i, (n, _) in enumerate(ip.enums["Value"])}
    h.let("f", h.call("Facts::new", []))
    f = h.ref("f")
    # model state per key: present, kind (0 int / 1 obj), ival, hasx, xval
    st = {k: {"p": False, "kind": z3.IntVal(0), "iv": z3.IntVal(0), "hx": False, "xv": z3.IntVal(0)} for k in KS}
    frames = []      # list of (open bool, snapshot dict) ; depth = number of open ones (stack discipline by position)
    depth = z3.IntVal(0)
    snaps = []       # snaps[d] = snapshot stored at depth d (symbolic per level)
    MAXD = K
    level = [dict((k, dict(st[k])) for k in KS) for _ in range(MAXD)]
    saw_nested_commit_then_rollback = False
    committed_inner = False
    for step in range(K):
        h.tag = "step%d" % step
        op = h.int("op%d" % step, 0, 7).v
        ki, ks = pick(h, "key%d" % step, KS)
        v = h.int("val%d" % step, 0, 3, "i64").v
        h.assume(z3.Implies(z3.Or(op == 1, op == 2), depth >= 1))
        h.assume(z3.Implies(op == 0, depth < MAXD))
        with ip.under(op == 0):
            ip.call("Facts::begin_undo_frame", [f])
        with ip.under(op == 1):
            ip.call("Facts::commit_undo_frame", [f])
        with ip.under(op == 2):
            ip.call("Facts::rollback_undo_frame", [f])
        with ip.under(op == 3):
            ip.call("Facts::set", [f, ks, En("Value", vi["Integer"], {vi["Integer"]: [I(v, "i64")]})])
        with ip.under(op == 4):
            ip.call("Facts::set", [f, ks, En("Value", vi["Object"], {vi["Object"]: [Mp([])]})])
        for j in range(len(KS)):
            with ip.under(band(op == 5, ki == j)):
                if ip.g is not False:
                    ip.call("Facts::set_nested", [f, S(KS[j] + ".x"), En("Value", vi["Integer"], {vi["Integer"]: [I(v, "i64")]})])
        with ip.under(op == 6):
            ip.call("Facts::remove", [f, ks])
        for j in range(len(KS)):
            with ip.under(band(op == 7, ki == j)):
                if ip.g is not False:
                    # single-segment path: behaves like set()
                    ip.call("Facts::set_nested", [f, S(KS[j]), En("Value", vi["Integer"], {vi["Integer"]: [I(v, "i64")]})])
        # model -----------------------------------------------------------------
        saw_nested_commit_then_rollback = bor(saw_nested_commit_then_rollback, band(op == 2, committed_inner, depth >= 1))
        committed_inner = bor(band(committed_inner, bnot(band(op == 2, depth == 1))), band(op == 1, depth >= 2))
        # begin: store snapshot at level[depth]
        for d in range(MAXD):
            for k in KS:
                for fld in ("p", "kind", "iv", "hx", "xv"):
                    level[d][k][fld] = mi(band(op == 0, depth == d), st[k][fld], level[d][k][fld])
        # rollback: restore level[depth-1]
        new = {}
        for k in KS:
            sel = ki == KS.index(k)
            cur = dict(st[k])
            # writes
            setint = band(bor(op == 3, op == 7), sel)
            setobj = band(op == 4, sel)
            setnest = band(op == 5, sel, cur["p"], cur["kind"] == 1)
            rem = band(op == 6, sel)
            n = {
                "p": band(bor(cur["p"], setint, setobj), bnot(rem)),
                "kind": z3.If(zbool(setint), 0, z3.If(zbool(setobj), 1, cur["kind"])),
                "iv": z3.If(zbool(setint), v, cur["iv"]),
                "hx": band(bor(cur["hx"], setnest), bnot(setobj), bnot(setint)),
                "xv": z3.If(zbool(setnest), v, cur["xv"]),
            }
            for d in range(MAXD):
                rb = band(op == 2, depth == d + 1)
                for fld in n:
                    n[fld] = mi(rb, level[d][k][fld], n[fld])
            new[k] = n
        st = new
        depth = z3.If(op == 0, depth + 1, z3.If(z3.Or(op == 1, op == 2), depth - 1, depth))
        # observation ---------------------------------------------------------------
        for k in KS:
            got = ip.deref(h.call("Facts::get", [h.get("f"), S(k)]))
            h.require(zbool(ip.tag_eq(got, 1)) == zbool(st[k]["p"]), "C10: presence of a key differs from the transactional reference")
            if got.pl.get(1):
                val = ip.deref(got.pl[1][0])
                with ip.under(band(ip.tag_eq(got, 1), st[k]["p"])):
                    isint = ip.tag_eq(val, vi["Integer"])
                    h.require(zbool(isint) == zbool(st[k]["kind"] == 0), "C10: kind of a value differs from the transactional reference")
                    if val.pl.get(vi["Integer"]):
                        h.require(bor(bnot(isint), ip.eq(val.pl[vi["Integer"]][0], I(st[k]["iv"]))), "C10: value of a key differs from the transactional reference")
                    if val.pl.get(vi["Object"]):
                        isobj = ip.tag_eq(val, vi["Object"])
                        found, xv = ip.bi.map_lookup(val.pl[vi["Object"]][0], S("x"))
                        h.require(bor(bnot(isobj), zbool(found) == zbool(st[k]["hx"])), "C10: nested field presence differs from the transactional reference")
                        if xv is not None and xv.pl.get(vi["Integer"]):
                            h.require(bor(bnot(band(isobj, found, st[k]["hx"])), ip.eq(xv.pl[vi["Integer"]][0], I(st[k]["xv"]))),
                                      "C10: nested field value differs from the transactional reference")
    h.cover(saw_nested_commit_then_rollback, "an inner frame was committed and the enclosing frame rolled back")
    if witness:
        h.require(False, "C10 witness")
    res = h.decide()
    res["bounds"] = {"operations": K, "keys": KS}
    res["harness"] = h
    res["K"], res["KS"] = K, KS
    return res


def decode(res, m):
    names = ["begin", "commit", "rollback", "set_int", "set_obj", "set_nested", "remove", "set_nested_flat"]
    out = []
    for s in range(res["K"]):
        op = m["op%d" % s]
        o = {"op": names[op]}
        if op >= 3:
            o["key"] = res["KS"][m["key%d" % s]]
        if op in (3, 5, 7):
            o["value"] = m["val%d" % s]
        out.append(o)
    return out


def finding_key(msg, trace):
    depth = 0
    inner_commit = False
    role = "no-inner-commit"
    for o in trace:
        if o["op"] == "begin":
            depth += 1
        elif o["op"] == "commit":
            if depth >= 2:
                inner_commit = True
            depth -= 1
        elif o["op"] == "rollback":
            if inner_commit:
                role = "rollback-after-inner-commit"
            depth -= 1
    return role + "|" + msg.split(":")[0]


def replay_source(trace):
    lines = []
    for o in trace:
        k = o.get("key")
        if o["op"] == "begin":
            lines.append("f.begin_undo_frame(); stack.push(cur.clone());")
        elif o["op"] == "commit":
            lines.append("f.commit_undo_frame(); stack.pop();")
        elif o["op"] == "rollback":
            lines.append("f.rollback_undo_frame(); if let Some(s) = stack.pop() { cur = s; }")
        elif o["op"] == "set_int":
            lines.append('f.set("%s", Value::Integer(%d)); cur.insert("%s".to_string(), Value::Integer(%d));' % (k, o["value"], k, o["value"]))
        elif o["op"] == "set_obj":
            lines.append('f.set("%s", Value::Object(HashMap::new())); cur.insert("%s".to_string(), Value::Object(HashMap::new()));' % (k, k))
        elif o["op"] == "set_nested":
            lines.append('{ let _ = f.set_nested("%s.x", Value::Integer(%d)); if let Some(Value::Object(m)) = cur.get_mut("%s") { m.insert("x".to_string(), Value::Integer(%d)); } }' % (k, o["value"], k, o["value"]))
        elif o["op"] == "set_nested_flat":
            lines.append('{ let _ = f.set_nested("%s", Value::Integer(%d)); cur.insert("%s".to_string(), Value::Integer(%d)); }' % (k, o["value"], k, o["value"]))
        else:
            lines.append('f.remove("%s"); cur.remove("%s");' % (k, k))
        lines.append('for k in ["a", "b", "c"] { if f.get(k) != cur.get(k).cloned() { bad.push(format!("after step {}: key {} is {:?}, reference {:?}", step, k, f.get(k), cur.get(k))); } } step += 1;')
    return """
use rust_rule_engine::engine::facts::Facts;
use rust_rule_engine::types::Value;
use std::collections::HashMap;
fn main() {
    let f = Facts::new();
    let mut cur: HashMap<String, Value> = HashMap::new();
    let mut stack: Vec<HashMap<String, Value>> = Vec::new();
    let mut bad: Vec<String> = Vec::new();
    let mut step = 0;
    %s
    let _ = step;
    if bad.is_empty() { println!("NOT-REPRODUCED"); } else { println!("REPRODUCED: {:?}", bad); }
}
""" % "\n    ".join(lines)


if __name__ == "__main__":
    import sys
    r = run(int(sys.argv[1]), int(sys.argv[2]) if len(sys.argv) > 2 else 2)
    print(r["status"], r["covers"], r["inconclusive"][:5], "wall", r["wall_s"], "decide", r["decide_wall_s"])
    for msg, m in r["violations"]:
        print("VIOLATION", msg, decode(r, m), finding_key(msg, decode(r, m)))
