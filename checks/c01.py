"""C01 (operator-semantics clause) — comparison / string / membership operators mean what is documented
(engine E3, rsym).

Clause decided: "its `when` expression is true ... under the documented meaning of the comparison, string,
membership ... operators", at the level of the function every condition goes through:
`Operator::evaluate(left, right)` with `Value::to_number` / `as_string_ref` (src/types.rs).

Inputs: operator symbolic over all 12 variants; both operands symbolic over Integer / Number / Boolean /
Null / String / Array drawn from candidate sets (stated below; Integer additionally ANY i64 for the
integer-vs-integer comparisons). Oracle: the documented meaning written independently in this file.
"""
import math
import re

import z3

from hlib import *  # noqa: F401,F403

ID = "C01"
FEATURES = []
import enginecore as _ec
FILES = _ec.FILES
FUNCTIONS = ["Operator::evaluate", "Value::to_number", "Value::as_string_ref", "evaluate_expression", "find_operator",
             "apply_operator", "value_to_number", "is_integer_value", "Facts::get", "Facts::get_nested",
             "RustRuleEngine::execute_with_callback", "RustRuleEngine::evaluate_conditions",
             "RustRuleEngine::evaluate_single_condition", "RustRuleEngine::execute_action", "RustRuleEngine::is_retracted"]
REPLAY_DEPS = ""
TREES = ["L", "!L", "L&L", "L|L", "L&(L|L)", "!(L&L)", "(L|L)&!L", "!(L|(L&L))"]
FIELDS = ["x", "y", "missing", "obj.n", "s"]
CMP = ["Equal", "NotEqual", "GreaterThan", "GreaterThanOrEqual", "LessThan", "LessThanOrEqual"]
FACT_INTS = [-2, 0, 1, 3]
EXPR_INTS = [-3, 0, 2, 7]
SHAPES = ["a + b * c", "a * b + c", "a - b - c", "a - b + c", "a * b * c", "a + b", "a - b * c - d", "a / b", "a % b", "a / b / c",
          "a * b / c", "a + 2 * b", "10 - a - b"]
INTS = [-1, 0, 1, 5, 2**53, 2**53 + 1, -2**63, 2**63 - 1]
FLOATS = [0.0, -0.0, 5.0, 1.5, -1.0, float("inf"), float("nan")]
STRS = ["", "a", "ab", "b", "null", "5", "5.0", " 5", "1e1", "abc", "NaN", "-3", ".5", "+2"]
OPS = ["Equal", "NotEqual", "GreaterThan", "GreaterThanOrEqual", "LessThan", "LessThanOrEqual", "Contains",
       "NotContains", "StartsWith", "EndsWith", "Matches", "In"]
TIERS = {
    # mode "expr" (arithmetic expression evaluator over candidate operands) is implemented below but NOT part of
    # any tier: the evaluator computes in f64 and z3's float theory answered unknown after 600 s even for
    # three operands from a 4-value candidate set. It is therefore not claimed.
    "quick": [{"mode": "table"}, {"mode": "ints"}, {"mode": "engine", "trees": 5}],
    "thorough": [{"mode": "table"}, {"mode": "ints"}, {"mode": "engine", "trees": 8}],
}
ASSUMPTIONS = [
    "operands from candidate sets: Integer %s, Number %s, String %s, Boolean, Null, Array [Integer 1, String 'a', Null]" % (INTS, FLOATS, STRS),
    "mode 'ints': both operands Integer with ANY i64 payload, Equal / NotEqual only (ordering of two free 64-bit integers through the f64 coercion made z3 answer unknown after 600 s; ordering is covered on the candidate set, which contains 2^53+1 and both i64 extremes)",
    "ONLY the operator-semantics clause: condition trees, missing-field-reads-as-null, field-reference right-hand sides, arithmetic expressions and assignment effects go through RustRuleEngine / Facts / expression.rs and are NOT covered",
    "str::parse::<f64> is modelled for concrete strings by the Rust float grammar (no whitespace, no underscores, inf/infinity/nan case-insensitive)",
]
BOUNDS_NOTE = "finite candidate domains (table mode) and the unbounded i64 x i64 comparison square (ints mode); nothing about the engine's condition gate"

RUST_FLOAT = re.compile(r"^[+-]?((\d+\.?\d*([eE][+-]?\d+)?)|(\.\d+([eE][+-]?\d+)?)|inf|infinity|nan)$", re.I)


def to_number(v):
    k, x = v
    if k == "int":
        return float(x)
    if k == "num":
        return x
    if k == "str":
        if RUST_FLOAT.match(x):
            try:
                return float(x)
            except ValueError:
                return None
        return None
    return None


def values():
    vs = [("int", i) for i in INTS] + [("num", f) for f in FLOATS] + [("str", s) for s in STRS]
    vs += [("bool", True), ("bool", False), ("null", None), ("arr", None)]
    return vs


ARR = [("int", 1), ("str", "a"), ("null", None)]


def veq_doc(a, b):
    """structural equality of two values (derive(PartialEq)): same kind and same payload; NaN != NaN"""
    if a[0] != b[0]:
        return False
    if a[0] == "num":
        return a[1] == b[1]
    if a[0] == "arr":
        return True
    return a[1] == b[1]


def expected(op, l, r):
    """documented meaning"""
    if op in ("Equal", "NotEqual"):
        if l[0] == "null" or r[0] == "null":
            ln = l[0] == "null" or (l[0] == "str" and l[1] == "null")
            rn = r[0] == "null" or (r[0] == "str" and r[1] == "null")
            e = ln == rn
        else:
            e = veq_doc(l, r)
        return e if op == "Equal" else not e
    if op in ("GreaterThan", "GreaterThanOrEqual", "LessThan", "LessThanOrEqual"):
        a, b = to_number(l), to_number(r)
        if a is None or b is None:
            return False
        return {"GreaterThan": a > b, "GreaterThanOrEqual": a >= b, "LessThan": a < b, "LessThanOrEqual": a <= b}[op]
    if op in ("Contains", "NotContains", "StartsWith", "EndsWith", "Matches"):
        if l[0] != "str" or r[0] != "str":
            return False
        return {"Contains": r[1] in l[1], "NotContains": r[1] not in l[1], "StartsWith": l[1].startswith(r[1]),
                "EndsWith": l[1].endswith(r[1]), "Matches": r[1] in l[1]}[op]
    if op == "In":
        if r[0] != "arr":
            return False
        return any(veq_doc(l, x) for x in ARR)
    raise ValueError(op)


def mk(ip, vi, v):
    k, x = v
    if k == "int":
        return En("Value", vi["Integer"], {vi["Integer"]: [I(x, "i64")]})
    if k == "num":
        return En("Value", vi["Number"], {vi["Number"]: [F(x)]})
    if k == "str":
        return En("Value", vi["String"], {vi["String"]: [S(x)]})
    if k == "bool":
        return En("Value", vi["Boolean"], {vi["Boolean"]: [x]})
    if k == "null":
        return En("Value", vi["Null"], {})
    return En("Value", vi["Array"], {vi["Array"]: [Vc([mk(ip, vi, a) for a in ARR])]})


def sym_value(h, ip, vi, name, vals):
    """symbolic choice among concrete values: index variable + merged value"""
    i = h.int(name, 0, len(vals) - 1).v
    cur = mk(ip, vi, vals[-1])
    for j in range(len(vals) - 2, -1, -1):
        cur = ite(i == j, mk(ip, vi, vals[j]), cur)
    return i, cur


def ref_eval(shape, env):
    """reference: usual precedence (* / % before + -), left associativity, exact integer arithmetic;
    a result is an Integer when it is whole, otherwise the f64 quotient; None = error (division by zero)"""
    toks = shape.split()
    vals = [env[t] if t in env else int(t) for t in toks[0::2]]
    ops = toks[1::2]
    from fractions import Fraction
    vals = [Fraction(v) for v in vals]
    # first pass: * / %
    out_v, out_o = [vals[0]], []
    for o, v in zip(ops, vals[1:]):
        if o in "*/%":
            x = out_v.pop()
            if o == "*":
                out_v.append(x * v)
            elif o == "/":
                if v == 0:
                    return None
                out_v.append(x / v)
            else:
                if v == 0:
                    return ("nan",)
                import math as _m
                out_v.append(Fraction(_m.fmod(float(x), float(v))))
        else:
            out_v.append(v)
            out_o.append(o)
    r = out_v[0]
    for o, v in zip(out_o, out_v[1:]):
        r = r + v if o == "+" else r - v
    return r


def run(mode, shapes=0, trees=0, witness=False):
    h = Harness(FILES, cap=8, loop_bound=8, rec_bound=4)
    ip = h.ip
    vi = {n: i for i, (n, _) in enumerate(ip.enums["Value"])}
    oi = {n: i for i, (n, _) in enumerate(ip.enums["Operator"])}
    res_extra = {}
    if mode == "table":
        vals = values()
        op = h.int("op", 0, len(OPS) - 1).v
        li, lv = sym_value(h, ip, vi, "left", vals)
        ri, rv = sym_value(h, ip, vi, "right", vals)
        opv = En("Operator", z3.If(op == 0, oi[OPS[0]], z3.IntVal(0)), {})
        tag = z3.IntVal(oi[OPS[-1]])
        for j in range(len(OPS) - 2, -1, -1):
            tag = z3.If(op == j, oi[OPS[j]], tag)
        opv = En("Operator", tag, {})
        got = ip.call("Operator::evaluate", [opv, lv, rv])
        # expected: table over (op, left, right)
        for o_i, o in enumerate(OPS):
            h.tag = o
            for a_i, a in enumerate(vals):
                terms_true = [ri == b_i for b_i, b in enumerate(vals) if expected(o, a, b)]
                want = bor(*terms_true)
                with ip.under(band(op == o_i, li == a_i)):
                    h.require(zbool(got) == zbool(want), "C01: %s differs from its documented meaning" % o)
        h.cover(band(op == OPS.index("Equal"), li == vals.index(("str", "null")), ri == vals.index(("null", None))), "string 'null' compared with null")
        h.cover(band(op == OPS.index("LessThan"), li == vals.index(("str", "5")), ri == vals.index(("num", 5.0))), "numeric string compared with a number")
        res_extra = {"values": len(vals), "operators": len(OPS)}
    elif mode == "ints":
        a = h.int("a", -2**63, 2**63 - 1, "i64")
        b = h.int("b", -2**63, 2**63 - 1, "i64")
        lv = En("Value", vi["Integer"], {vi["Integer"]: [a]})
        rv = En("Value", vi["Integer"], {vi["Integer"]: [b]})
        exact = z3.And(a.v >= -2**53, a.v <= 2**53, b.v >= -2**53, b.v <= 2**53)
        for o in OPS[:2]:
            h.tag = o
            got = ip.call("Operator::evaluate", [En("Operator", oi[o], {}), lv, rv])
            if o == "Equal":
                h.require(zbool(got) == (a.v == b.v), "C01: Equal on integers differs from integer equality")
            elif o == "NotEqual":
                h.require(zbool(got) == (a.v != b.v), "C01: NotEqual on integers differs from integer inequality")
            else:
                want = {"GreaterThan": a.v > b.v, "GreaterThanOrEqual": a.v >= b.v, "LessThan": a.v < b.v, "LessThanOrEqual": a.v <= b.v}[o]
                with ip.under(exact):
                    h.require(zbool(got) == want, "C01: %s on integers differs from integer ordering" % o)
        h.cover(a.v > b.v, "a > b")
    elif mode == "engine":
        # the REAL engine decides whether one rule fires; its condition is a symbolic tree
        ip.split_fns = {"evaluate_expression", "Facts::get_nested"}   # text-scanning functions: case split on the symbolic name
        oi_ = oi
        li = {n: i for i, (n, _) in enumerate(ip.enums["LogicalOperator"])}
        ai = {n: i for i, (n, _) in enumerate(ip.enums["ActionType"])}
        # facts: x, y integers from candidates or absent; obj = {n: int}
        h.let("facts", h.call("Facts::new", []))
        fr = h.ref("facts")
        fv = {}
        for name in ("x", "y"):
            pres = h.bool("has_" + name)
            i, v = sym_value(h, ip, vi, "val_" + name, [("int", k) for k in FACT_INTS])
            fv[name] = (pres, i)
            with ip.under(pres):
                ip.call("Facts::set", [fr, S(name), v])
        ni, nv = sym_value(h, ip, vi, "val_obj_n", [("int", k) for k in FACT_INTS])
        fv["obj.n"] = (True, ni)
        ip.call("Facts::set", [fr, S("obj"), En("Value", vi["Object"], {vi["Object"]: [Mp([[True, S("n"), nv]])]})])
        fv["missing"] = (False, z3.IntVal(0))
        # s holds the STRING "x" (a string value that happens to name another fact)
        has_s = h.bool("has_s")
        with ip.under(has_s):
            ip.call("Facts::set", [fr, S("s"), mk(ip, vi, ("str", "x"))])
        fv["s"] = (has_s, z3.IntVal(0))
        leaves = []

        def leaf(idx):
            fi = h.int("leaf%d_field" % idx, 0, len(FIELDS) - 1).v
            op = h.int("leaf%d_op" % idx, 0, len(CMP) - 1).v
            rk = h.int("leaf%d_rhs_kind" % idx, 0, 4).v      # 0 int literal, 1 field reference (string naming a fact), 2 null, 3 string naming nothing, 4 field reference as Value::Expression
            rint = h.int("leaf%d_rhs_int" % idx, 0, len(FACT_INTS) - 1).v
            rref = h.int("leaf%d_rhs_ref" % idx, 0, 2).v       # x, y or s
            fs = S(FIELDS[-1])
            for j in range(len(FIELDS) - 2, -1, -1):
                fs = ite(fi == j, S(FIELDS[j]), fs)
            opt_ = z3.IntVal(oi_[CMP[-1]])
            for j in range(len(CMP) - 2, -1, -1):
                opt_ = z3.If(op == j, oi_[CMP[j]], opt_)
            lit = mk(ip, vi, ("int", FACT_INTS[-1]))
            for j in range(len(FACT_INTS) - 2, -1, -1):
                lit = ite(rint == j, mk(ip, vi, ("int", FACT_INTS[j])), lit)
            refv = ite(rref == 0, mk(ip, vi, ("str", "x")), ite(rref == 1, mk(ip, vi, ("str", "y")), mk(ip, vi, ("str", "s"))))
            exprv = En("Value", vi["Expression"], {vi["Expression"]: [ip.deref(refv).pl[vi["String"]][0]]})
            rhs = ite(rk == 0, lit, ite(rk == 1, refv, ite(rk == 2, mk(ip, vi, ("null", None)), ite(rk == 3, mk(ip, vi, ("str", "zzz")), exprv))))
            c = h.call("Condition::new", [fs, En("Operator", opt_, {}), rhs])
            # reference truth of the leaf ------------------------------------------------
            def fact(name):       # (present, candidate index)
                return fv[name]
            lp, lidx = False, z3.IntVal(0)
            l_is_str = band(fi == FIELDS.index("s"), has_s)                 # the only string-valued field; its text is "x"
            for j, f_ in enumerate(FIELDS):
                p_, i_ = fact(f_)
                lp = bor(lp, band(fi == j, p_))
                lidx = z3.If(fi == j, i_, lidx)
            l_is_int = band(lp, bnot(l_is_str))
            # rhs: kind 0 int literal; 1 the referenced fact's value if it exists, else the naming string itself; 2 null; 3 the string "zzz"
            rp_x, ri_x = fact("x")
            rp_y, ri_y = fact("y")
            ref_present = ite(rref == 0, rp_x, ite(rref == 1, rp_y, has_s))
            ref_idx = z3.If(rref == 0, ri_x, ri_y)
            isref = bor(rk == 1, rk == 4)
            r_is_int = bor(rk == 0, band(isref, ref_present, rref != 2))
            r_idx = z3.If(rk == 0, rint, ref_idx)
            r_is_null = rk == 2
            # the right-hand side is the text "x" when it refers to s (which holds "x"), or names the absent fact x
            r_text_x = bor(band(isref, rref == 2, has_s), band(rk == 1, rref == 0, bnot(rp_x)))

            def ival(idx_):
                e = z3.IntVal(FACT_INTS[-1])
                for j in range(len(FACT_INTS) - 2, -1, -1):
                    e = z3.If(idx_ == j, FACT_INTS[j], e)
                return e
            lv_, rv_ = ival(lidx), ival(r_idx)
            both_int = band(l_is_int, r_is_int)
            eq = bor(band(both_int, lv_ == rv_), band(bnot(lp), r_is_null), band(l_is_str, r_text_x))
            ordr = {"GreaterThan": lv_ > rv_, "GreaterThanOrEqual": lv_ >= rv_, "LessThan": lv_ < rv_, "LessThanOrEqual": lv_ <= rv_}
            truth = False
            for j, o in enumerate(CMP):
                if o == "Equal":
                    t_ = eq
                elif o == "NotEqual":
                    t_ = bnot(eq)
                else:
                    t_ = band(both_int, ordr[o])     # ordering is false when either side is not numeric (null, non-numeric string)
                truth = bor(truth, band(op == j, t_))
            return h.call("ConditionGroup::single", [c]), truth

        def parse_tree(txt):
            """tiny recursive-descent over the shape strings; returns (ConditionGroup value, truth)"""
            pos = [0]
            cnt = [0]

            def atom():
                ch = txt[pos[0]]
                if ch == "!":
                    pos[0] += 1
                    v, t_ = atom()
                    return h.call("ConditionGroup::not", [v]), bnot(t_)
                if ch == "(":
                    pos[0] += 1
                    v, t_ = expr()
                    pos[0] += 1
                    return v, t_
                pos[0] += 1
                cnt[0] += 1
                return leaf(len(leaves) + cnt[0])

            def expr():
                v, t_ = atom()
                while pos[0] < len(txt) and txt[pos[0]] in "&|":
                    o = txt[pos[0]]
                    pos[0] += 1
                    v2, t2 = atom()
                    v = h.call("ConditionGroup::and" if o == "&" else "ConditionGroup::or", [v, v2])
                    t_ = band(t_, t2) if o == "&" else bor(t_, t2)
                return v, t_
            r = expr()
            leaves.extend(range(cnt[0]))
            return r

        shape = h.int("tree", 0, trees - 1).v
        built = [parse_tree(t_) for t_ in TREES[:trees]]
        cg, truth = built[-1]
        for j in range(trees - 2, -1, -1):
            cg = ite(shape == j, built[j][0], cg)
            truth = ite(shape == j, built[j][1], truth)
        act = En("ActionType", ai["Set"], {ai["Set"]: {"field": S("out"), "value": mk(ip, vi, ("int", 7))}})
        rule = h.call("Rule::new", [S("r"), cg, Vc([act])])
        h.let("kb", h.call("KnowledgeBase::new", [S("kb")]))
        ip.call("KnowledgeBase::add_rule", [h.ref("kb"), rule])
        cfg = St("EngineConfig", {"max_cycles": I(1, "usize"), "timeout": none(), "enable_stats": False, "debug_mode": False})
        h.let("eng", h.call("RustRuleEngine::with_config", [h.get("kb"), cfg]))
        fired = []

        def cb(ip_, a_):
            fired.append(ip_.g)
            return V.UNIT
        out = ip.deref(ip.call("RustRuleEngine::execute_with_callback", [h.ref("eng"), fr, V.PyFn(cb)]))
        did = bor(*fired)
        h.tag = "fires-iff"
        h.require(ip.tag_eq(out, 0), "C01: execute returned an error on a typed-core condition")
        h.require(zbool(did) == zbool(truth), "C01: the rule's actions ran although its condition is false, or did not run although it is true")
        g = ip.deref(h.call("Facts::get", [h.get("facts"), S("out")]))
        h.require(zbool(ip.tag_eq(g, 1)) == zbool(truth), "C01: the assignment was (not) stored although the condition is (not) true")
        if g.pl.get(1):
            v_ = ip.deref(g.pl[1][0])
            if v_.pl.get(vi["Integer"]):
                h.require(bor(bnot(truth), band(ip.tag_eq(v_, vi["Integer"]), ip.eq(v_.pl[vi["Integer"]][0], I(7)))), "C01: the assignment stored a value other than its right-hand side")
        h.cover(band(truth, shape == min(2, trees - 1)), "a compound condition was true")
        h.cover(bnot(truth), "a condition was false (the rule must not fire)")
        res_extra = {"trees": TREES[:trees], "fields": FIELDS, "operators": CMP, "fact_values": FACT_INTS}
    elif mode == "expr":
        import itertools
        h.let("facts", h.call("Facts::new", []))
        f = h.ref("facts")
        sel = {}
        for name in "abcd":
            i, v = sym_value(h, ip, vi, "sel_" + name, [("int", x) for x in EXPR_INTS])
            sel[name] = i
            ip.call("Facts::set", [f, S(name), v])
        for shape in SHAPES[:shapes]:
            h.tag = shape
            got = ip.deref(ip.call("evaluate_expression", [S(shape), h.get("facts")]))
            names = [t for t in shape.split() if t in "abcd"]
            names = sorted(set(names))
            for combo in itertools.product(range(len(EXPR_INTS)), repeat=len(names)):
                env = {n: EXPR_INTS[c] for n, c in zip(names, combo)}
                want = ref_eval(shape, env)
                g = band(*[sel[n] == c for n, c in zip(names, combo)])
                with ip.under(g):
                    if want is None:
                        h.require(ip.tag_eq(got, 1), "C01: arithmetic expression: division by zero must be an error")
                    elif want == ("nan",):
                        pass     # x % 0: NaN by f64 semantics, not judged
                    else:
                        okv = ip.tag_eq(got, 0)
                        val = ip.deref(got.pl[0][0])
                        if want.denominator == 1:
                            exp = mk(ip, vi, ("int", int(want)))
                            cond = band(okv, ip.tag_eq(val, vi["Integer"]), ip.eq(val.pl[vi["Integer"]][0], I(int(want))) if val.pl.get(vi["Integer"]) else False)
                        else:
                            cond = band(okv, ip.tag_eq(val, vi["Number"]), ip.eq(val.pl[vi["Number"]][0], F(float(want))) if val.pl.get(vi["Number"]) else False)
                        h.require(cond, "C01: arithmetic expression value differs from usual precedence / left associativity")
        h.cover(sel["a"] == 1, "an operand was 0")
        res_extra = {"shapes": SHAPES[:shapes], "operand_values": EXPR_INTS}
    else:
        raise ValueError(mode)
    if witness:
        h.require(False, "C01 witness")
    res = h.decide()
    res["bounds"] = dict({"mode": mode}, **res_extra)
    res["harness"] = h
    res["mode"] = mode
    return res


def decode(res, m):
    if res["mode"] == "table":
        vals = values()
        def show(v):
            return [v[0], (repr(v[1]) if v[0] == "num" else v[1])]
        return {"mode": "table", "operator": OPS[m["op"]], "left": show(vals[m["left"]]), "right": show(vals[m["right"]])}
    if res["mode"] == "engine":
        return {"mode": "engine", "model": {k: v for k, v in m.items()}, "trees": res["bounds"]["trees"]}
    if res["mode"] == "expr":
        return {"mode": "expr", "operands": {n: EXPR_INTS[m["sel_" + n]] for n in "abcd"}, "shapes": res["bounds"]["shapes"]}
    return {"mode": "ints", "a": m["a"], "b": m["b"]}


def finding_key(msg, trace):
    return msg


def rust_value(v):
    k, x = v[0], v[1]
    if k == "int":
        return "Value::Integer(%d)" % x if x != -2**63 else "Value::Integer(i64::MIN)"
    if k == "num":
        x = float(x) if not isinstance(x, float) else x
        if math.isnan(x):
            return "Value::Number(f64::NAN)"
        if math.isinf(x):
            return "Value::Number(f64::INFINITY)" if x > 0 else "Value::Number(f64::NEG_INFINITY)"
        return "Value::Number(%sf64)" % repr(x)
    if k == "str":
        return 'Value::String("%s".to_string())' % x
    if k == "bool":
        return "Value::Boolean(%s)" % str(x).lower()
    if k == "null":
        return "Value::Null"
    return 'Value::Array(vec![Value::Integer(1), Value::String("a".to_string()), Value::Null])'


def replay_source(t):
    if t["mode"] == "table":
        vals = values()
        def back(s):
            k, x = s
            if k == "num":
                return (k, float(x))
            return (k, x)
        l, r = back(t["left"]), back(t["right"])
        want = expected(t["operator"], l, r)
        return """
use rust_rule_engine::types::{Operator, Value};
fn main() {
    let got = Operator::%s.evaluate(&%s, &%s);
    let want = %s;
    if got != want { println!("REPRODUCED: %s gives {} but the documented meaning is {}", got, want); } else { println!("NOT-REPRODUCED"); }
}
""" % (t["operator"], rust_value(l), rust_value(r), str(want).lower(), t["operator"])
    if t["mode"] == "engine":
        return replay_engine(t)
    if t["mode"] == "expr":
        checks = []
        for shape in t["shapes"]:
            want = ref_eval(shape, t["operands"])
            if want is None:
                checks.append('if evaluate_expression("%s", &f).is_ok() { bad.push("%s: division by zero accepted".to_string()); }' % (shape, shape))
            elif want == ("nan",):
                continue
            elif want.denominator == 1:
                checks.append('match evaluate_expression("%s", &f) { Ok(Value::Integer(x)) if x == %d => {}, other => bad.push(format!("%s = {:?}, expected Integer(%d)", other)) }' % (shape, int(want), shape, int(want)))
            else:
                checks.append('match evaluate_expression("%s", &f) { Ok(Value::Number(x)) if x == %sf64 => {}, other => bad.push(format!("%s = {:?}, expected Number(%s)", other)) }' % (shape, repr(float(want)), shape, repr(float(want))))
        sets = "\n    ".join('f.set("%s", Value::Integer(%d));' % (n, v) for n, v in t["operands"].items())
        return """
use rust_rule_engine::engine::facts::Facts;
use rust_rule_engine::expression::evaluate_expression;
use rust_rule_engine::types::Value;
fn main() {
    let f = Facts::new();
    %s
    let mut bad: Vec<String> = Vec::new();
    %s
    if bad.is_empty() { println!("NOT-REPRODUCED"); } else { println!("REPRODUCED: {:?}", bad); }
}
""" % (sets, "\n    ".join(checks))
    return """
use rust_rule_engine::types::{Operator, Value};
fn main() {
    let (a, b): (i64, i64) = (%d, %d);
    let (l, r) = (Value::Integer(a), Value::Integer(b));
    let mut bad = Vec::new();
    if Operator::Equal.evaluate(&l, &r) != (a == b) { bad.push("Equal"); }
    if Operator::NotEqual.evaluate(&l, &r) != (a != b) { bad.push("NotEqual"); }
    if a.abs() <= (1i64 << 53) && b.abs() <= (1i64 << 53) {
        if Operator::GreaterThan.evaluate(&l, &r) != (a > b) { bad.push("GreaterThan"); }
        if Operator::GreaterThanOrEqual.evaluate(&l, &r) != (a >= b) { bad.push("GreaterThanOrEqual"); }
        if Operator::LessThan.evaluate(&l, &r) != (a < b) { bad.push("LessThan"); }
        if Operator::LessThanOrEqual.evaluate(&l, &r) != (a <= b) { bad.push("LessThanOrEqual"); }
    }
    if bad.is_empty() { println!("NOT-REPRODUCED"); } else { println!("REPRODUCED: {:?}", bad); }
}
""" % (t["a"], t["b"])


def replay_engine(t):
    m = t["model"]
    tree = t["trees"][m["tree"]]
    # leaves are numbered in construction order over ALL trees; recover the numbering for the chosen tree
    n = 0
    first = {}
    for ti, txt in enumerate(t["trees"]):
        first[ti] = n
        n += txt.count("L")
    base = first[m["tree"]]
    k = [0]

    def leaf_src():
        k[0] += 1
        idx = base + k[0]
        fld = FIELDS[m["leaf%d_field" % idx]]
        op = CMP[m["leaf%d_op" % idx]]
        rk = m["leaf%d_rhs_kind" % idx]
        rhs = {0: "Value::Integer(%d)" % FACT_INTS[m["leaf%d_rhs_int" % idx]], 1: 'Value::String("%s".to_string())' % ["x", "y", "s"][m["leaf%d_rhs_ref" % idx]],
               2: "Value::Null", 3: 'Value::String("zzz".to_string())', 4: 'Value::Expression("%s".to_string())' % ["x", "y", "s"][m["leaf%d_rhs_ref" % idx]]}[rk]
        rust = 'ConditionGroup::single(Condition::new("%s".to_string(), Operator::%s, %s))' % (fld, op, rhs)
        ref = 'leaf(&env, has_s, "%s", "%s", %d, %d, "%s")' % (fld, op, rk, FACT_INTS[m["leaf%d_rhs_int" % idx]], ["x", "y", "s"][m["leaf%d_rhs_ref" % idx]])
        return rust, ref
    pos = [0]

    def atom():
        ch = tree[pos[0]]
        if ch == "!":
            pos[0] += 1
            a, b = atom()
            return "ConditionGroup::not(%s)" % a, "!(%s)" % b
        if ch == "(":
            pos[0] += 1
            a, b = expr()
            pos[0] += 1
            return a, "(%s)" % b
        pos[0] += 1
        return leaf_src()

    def expr():
        a, b = atom()
        while pos[0] < len(tree) and tree[pos[0]] in "&|":
            o = tree[pos[0]]
            pos[0] += 1
            a2, b2 = atom()
            a = "ConditionGroup::%s(%s, %s)" % ("and" if o == "&" else "or", a, a2)
            b = "(%s %s %s)" % (b, "&&" if o == "&" else "||", b2)
        return a, b
    cg, ref = expr()
    sets = []
    env = []
    for name in ("x", "y"):
        if m["has_" + name]:
            sets.append('facts.set("%s", Value::Integer(%d));' % (name, FACT_INTS[m["val_" + name]]))
            env.append('("%s", %d)' % (name, FACT_INTS[m["val_" + name]]))
    if m["has_s"]:
        sets.append('facts.set("s", Value::String("x".to_string()));')
    sets.append("let has_s = %s;" % str(bool(m["has_s"])).lower())
    sets.append('{ let mut o = HashMap::new(); o.insert("n".to_string(), Value::Integer(%d)); facts.set("obj", Value::Object(o)); }' % FACT_INTS[m["val_obj_n"]])
    env.append('("obj.n", %d)' % FACT_INTS[m["val_obj_n"]])
    return """
use rust_rule_engine::engine::engine::{EngineConfig, RustRuleEngine};
use rust_rule_engine::engine::facts::Facts;
use rust_rule_engine::engine::knowledge_base::KnowledgeBase;
use rust_rule_engine::engine::rule::{Condition, ConditionGroup, Rule};
use rust_rule_engine::types::{ActionType, Operator, Value};
use std::collections::HashMap;
fn leaf(env: &Vec<(&str, i64)>, has_s: bool, field: &str, op: &str, rk: i32, rint: i64, rref: &str) -> bool {
    let l = env.iter().find(|e| e.0 == field).map(|e| e.1);
    let l_is_str = field == "s" && has_s;
    let l_missing = l.is_none() && !l_is_str;
    let r: Option<i64> = match rk { 0 => Some(rint), 1 | 4 if rref != "s" => env.iter().find(|e| e.0 == rref).map(|e| e.1), _ => None };
    let r_null = rk == 2;
    let r_text_x = ((rk == 1 || rk == 4) && rref == "s" && has_s) || (rk == 1 && rref == "x" && !env.iter().any(|e| e.0 == "x"));
    let eq = match (l, r) { (Some(a), Some(b)) => a == b, _ => (l_missing && r_null) || (l_is_str && r_text_x) };
    match op { "Equal" => eq, "NotEqual" => !eq,
        _ => match (l, r) { (Some(a), Some(b)) => match op { "GreaterThan" => a > b, "GreaterThanOrEqual" => a >= b, "LessThan" => a < b, _ => a <= b }, _ => false } }
}
fn main() {
    let facts = Facts::new();
    %s
    let env: Vec<(&str, i64)> = vec![%s];
    let kb = KnowledgeBase::new("kb");
    kb.add_rule(Rule::new("r".to_string(), %s, vec![ActionType::Set { field: "out".to_string(), value: Value::Integer(7) }])).unwrap();
    let mut eng = RustRuleEngine::with_config(kb, EngineConfig { max_cycles: 1, timeout: None, enable_stats: false, debug_mode: false });
    let mut n = 0;
    let res = eng.execute_with_callback(&facts, |_, _| n += 1);
    let want = %s;
    let mut bad: Vec<String> = Vec::new();
    if res.is_err() { bad.push("execute error".into()); }
    if (n == 1) != want { bad.push(format!("fired={} but the condition is {}", n, want)); }
    if (facts.get("out") == Some(Value::Integer(7))) != want { bad.push("assignment effect differs".into()); }
    if bad.is_empty() { println!("NOT-REPRODUCED"); } else { println!("REPRODUCED: {:?}", bad); }
}
""" % ("\n    ".join(sets), ", ".join(env), cg, ref)


if __name__ == "__main__":
    import sys
    n_ = int(sys.argv[2]) if len(sys.argv) > 2 else 0
    r = run(sys.argv[1], shapes=n_, trees=n_)
    print(r["status"], r["covers"], r["inconclusive"][:5], "wall", r["wall_s"], "decide", r["decide_wall_s"])
    for msg, m in r["violations"]:
        print("VIOLATION", msg, decode(r, m))
