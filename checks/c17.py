"""C17 — cached proofs are valid exactly while a justification survives (engine E3, rsym).

Real code executed symbolically: src/backward/proof_graph.rs — ProofGraph::new / insert_proof /
invalidate_handle / propagate_invalidation / is_proven / lookup_by_key / get_node,
ProofGraphNode::{new, add_justification, remove_justifications_with_premise}, FactKey::new.

Histories: K operations over N handles from {insert_proof(h, any premise set), invalidate_handle(h)}.
Premises respect a symbolic rank (any DAG shape, ANY insertion order incl. dependents before
premises); an invalidated handle is never used as a premise later (property quantifier).
"""
import z3

from hlib import *  # noqa: F401,F403

ID = "C17"
FEATURES = ["backward-chaining"]
FILES = ["types.rs", "rete/working_memory.rs", "backward/proof_graph.rs"]
FUNCTIONS = ["ProofGraph::new", "ProofGraph::insert_proof", "ProofGraph::invalidate_handle",
             "ProofGraph::propagate_invalidation", "ProofGraph::is_proven", "ProofGraph::lookup_by_key",
             "ProofGraph::get_node", "ProofGraphNode::new", "ProofGraphNode::add_justification",
             "ProofGraphNode::remove_justifications_with_premise", "FactKey::new"]
TIERS = {
    "quick": [{"N": 3, "K": 4}],
    "thorough": [{"N": 4, "K": 4}, {"N": 3, "K": 5}, {"N": 3, "skeleton": "IIIVVIV"}],
}
ASSUMPTIONS = [
    "one distinct FactKey per handle (so is_proven(key_h) observes exactly node h)",
    "premise sets follow a symbolic strict rank (acyclic support, any shape and any insertion order)",
    "a handle that has been invalidated (directly or by cascade) is not used as a premise of a later insertion",
    "rule names / premise keys are constants; bindings maps empty",
    "HashMap/HashSet/Vec are bounded slot models with one fixed iteration order (bound obligations checked)",
]
BOUNDS_NOTE = "bounds: N handles, K operations (see runs[].bounds); longer histories and shared keys between handles are outside the claim"


def fh(x):
    return St("FactHandle", {"0": I(x, "u64")})


def key(x):
    return St("FactKey", {"fact_type": S("T"), "field": none(), "pattern": S("k%d" % x)})


def run(N, K=None, skeleton=None, witness=False):
    if skeleton:
        K = len(skeleton)
    h = Harness(FILES, cap=max(N, K) + 1, loop_bound=max(N, K) + 2, rec_bound=N + 2)
    ip = h.ip
    h.let("g", h.call("ProofGraph::new", []))
    g = h.ref("g")
    H = range(1, N + 1)
    rank = {x: h.int("rank%d" % x, 0, N).v for x in H}
    isnode = {x: False for x in H}
    dinv = {x: False for x in H}       # directly invalidated and not re-proved since
    everinv = {x: False for x in H}    # unusable as a premise from now on
    justs = []                         # (active, owner Int, bits, alive)
    saw_cascade = False
    saw_reproof = False
    saw_dep_first = False
    ops = []

    def valid(x):
        return band(isnode[x], bnot(dinv[x]), bor(*[band(act, own == x, alive) for (act, own, bits, alive) in justs]))

    for step in range(K):
        h.tag = 'step%d' % step
        op = h.int("op%d" % step, 0, 1).v
        if skeleton:
            # operation kinds fixed by the skeleton (I = insert_proof, V = invalidate_handle); arguments stay symbolic
            h.assume(op == (0 if skeleton[step] == "I" else 1))
            op = z3.IntVal(0 if skeleton[step] == "I" else 1)
        tgt = h.int("tgt%d" % step, 1, N).v
        bits = {x: h.bool("m%d_%d" % (step, x)) for x in H}
        ops.append((op, tgt, bits))
        is_ins = (skeleton[step] == "I") if skeleton else (op == 0)
        # admissible premises: lower rank, never invalidated, (and not the target itself by rank)
        for x in H:
            h.assume(z3.Implies(z3.And(is_ins, bits[x]), zbool(band(*[bor(bnot(tgt == y), rank[x] < rank[y]) for y in H]))))
            h.assume(z3.Implies(z3.And(is_ins, bits[x]), zbool(bnot(everinv[x]))))
        prem = ip.bi.vec_from_seq([(bits[x], fh(x)) for x in H])
        pkeys = Vc([])
        hsym = St("FactHandle", {"0": I(tgt, "u64")})
        ksym = S("k%d" % N)
        for x in range(N - 1, 0, -1):
            ksym = ite(tgt == x, S("k%d" % x), ksym)
        keysym = St("FactKey", {"fact_type": S("T"), "field": none(), "pattern": ksym})
        with ip.under(is_ins):
            ip.call("ProofGraph::insert_proof", [g, hsym, keysym, S("r"), prem, pkeys])
        with ip.under(bnot(is_ins)):
            ip.call("ProofGraph::invalidate_handle", [g, hsym])
        # reference model -------------------------------------------------------
        for x in H:
            hit = band(is_ins, tgt == x)
            saw_reproof = bor(saw_reproof, band(hit, isnode[x], bnot(valid(x))))
            # a dependent inserted before one of its premises became a node
            saw_dep_first = bor(saw_dep_first, band(hit, bnot(isnode[x]), bor(*[band(act, bts[x]) for (act, own, bts, al) in justs])))
            isnode[x] = bor(isnode[x], hit)
            dinv[x] = band(bor(dinv[x], band(bnot(is_ins), tgt == x)), bnot(hit))
        justs.append((is_ins, tgt, bits, True))
        # invalidation kills justifications mentioning tgt, then cascades through nodes without live justifications
        killed = {x: band(bnot(is_ins), tgt == x) for x in H}
        for _ in range(N):
            nj = []
            for (act, own, bts, alive) in justs:
                alive2 = band(alive, bnot(bor(*[band(bts[x], killed[x]) for x in H])))
                nj.append((act, own, bts, alive2))
            justs = nj
            lost = {x: band(isnode[x], bnot(is_ins), bnot(bor(*[band(act, own == x, alive) for (act, own, bts, alive) in justs])),
                            bor(*[band(act, own == x) for (act, own, bts, alive) in justs])) for x in H}
            newk = {x: bor(killed[x], lost[x]) for x in H}
            killed = newk
        for x in H:
            casc = band(killed[x], bnot(band(bnot(is_ins), tgt == x)))
            saw_cascade = bor(saw_cascade, casc)
            everinv[x] = bor(everinv[x], killed[x])
        # observations ----------------------------------------------------------------
        for x in H:
            want = valid(x)
            node = ip.deref(h.call("ProofGraph::get_node", [h.get("g"), fh(x)]))
            has = ip.tag_eq(node, 1)
            h.require(zbool(has) == zbool(isnode[x]), "C17: a node exists exactly for handles with an inserted proof")
            if node.pl.get(1):
                nv = ip.deref(node.pl[1][0]).f["valid"]
                h.require(bor(bnot(has), zbool(nv) == zbool(want)), "C17: node validity differs from 'some justification has no invalidated premise'")
            pv = h.call("ProofGraph::is_proven", [g, key(x)])
            h.require(zbool(pv) == zbool(want), "C17: is_proven differs from 'some justification has no invalidated premise'")
    h.cover(saw_cascade, "an invalidation cascaded to a dependent proof")
    h.cover(saw_reproof, "an invalidated proof was re-proved")
    h.cover(saw_dep_first, "a dependent was inserted before its premise had a node")
    if witness:
        h.require(False, "C17 witness: end of harness reached")
    res = h.decide()
    res["bounds"] = {"handles": N, "operations": K, "skeleton": skeleton}
    res["harness"] = h
    res["ops"] = ops
    return res


def decode(res, m):
    out = []
    for step, (op, tgt, bits) in enumerate(res["ops"]):
        if m["op%d" % step] == 0:
            out.append({"op": "insert_proof", "handle": m["tgt%d" % step], "premises": [x for x in bits if m["m%d_%d" % (step, x)]]})
        else:
            out.append({"op": "invalidate_handle", "handle": m["tgt%d" % step]})
    return out


def finding_key(msg, trace):
    # role: was a dependent inserted before its premise got a node?
    nodes = set()
    dep_first = False
    pending = set()
    for o in trace:
        if o["op"] == "insert_proof":
            if o["handle"] in pending:
                dep_first = True
            nodes.add(o["handle"])
            for p in o["premises"]:
                if p not in nodes:
                    pending.add(p)
    return ("dependent-before-premise|" if dep_first else "premise-first|") + msg


def replay_source(trace):
    ops = ", ".join("(%d, %d, vec![%s])" % (0 if o["op"] == "insert_proof" else 1, o["handle"],
                                            ", ".join(str(p) for p in o.get("premises", []))) for o in trace)
    return """
use rust_rule_engine::backward::proof_graph::{FactKey, ProofGraph};
use rust_rule_engine::rete::FactHandle;
use std::collections::BTreeSet;

fn main() {
    let ops: Vec<(u8, u64, Vec<u64>)> = vec![%s];
    let mut g = ProofGraph::new();
    let key = |h: u64| FactKey::new("T".to_string(), None, format!("k{}", h));
    let mut isnode: BTreeSet<u64> = BTreeSet::new();
    let mut dinv: BTreeSet<u64> = BTreeSet::new();
    let mut justs: Vec<(u64, Vec<u64>, bool)> = Vec::new();
    let mut all: BTreeSet<u64> = BTreeSet::new();
    let mut bad: Vec<String> = Vec::new();
    for (k, h, prem) in ops {
        all.insert(h); for p in &prem { all.insert(*p); }
        if k == 0 {
            g.insert_proof(FactHandle::new(h), key(h), "r".to_string(), prem.iter().map(|p| FactHandle::new(*p)).collect(), vec![]);
            isnode.insert(h); dinv.remove(&h);
            justs.push((h, prem.clone(), true));
        } else {
            g.invalidate_handle(&FactHandle::new(h));
            dinv.insert(h);
            let mut killed: BTreeSet<u64> = BTreeSet::new(); killed.insert(h);
            loop {
                let mut changed = false;
                for j in justs.iter_mut() { if j.2 && j.1.iter().any(|p| killed.contains(p)) { j.2 = false; changed = true; } }
                for x in isnode.iter() {
                    let had = justs.iter().any(|j| j.0 == *x);
                    let live = justs.iter().any(|j| j.0 == *x && j.2);
                    if had && !live && !killed.contains(x) { killed.insert(*x); changed = true; }
                }
                if !changed { break; }
            }
        }
        for x in all.iter() {
            let want = isnode.contains(x) && !dinv.contains(x) && justs.iter().any(|j| j.0 == *x && j.2);
            let node = g.get_node(&FactHandle::new(*x));
            if node.is_some() != isnode.contains(x) { bad.push(format!("node({}) existence", x)); }
            if let Some(n) = node { if n.valid != want { bad.push(format!("node {} valid={} but reference says {}", x, n.valid, want)); } }
            if g.is_proven(&key(*x)) != want { bad.push(format!("is_proven(k{}) != {}", x, want)); }
        }
    }
    if bad.is_empty() { println!("NOT-REPRODUCED"); } else { println!("REPRODUCED: {:?}", bad); }
}
""" % ops


if __name__ == "__main__":
    import sys
    r = run(int(sys.argv[1]), int(sys.argv[2])) if sys.argv[2].isdigit() else run(int(sys.argv[1]), skeleton=sys.argv[2])
    print(r["status"], r["covers"], r["inconclusive"][:5], "wall", r["wall_s"], "decide", r["decide_wall_s"])
    for msg, m in r["violations"]:
        print("VIOLATION", msg, decode(r, m), finding_key(msg, decode(r, m)))
