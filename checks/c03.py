"""C03 — execute always returns, within max_cycles, at a fixpoint or at the bound (engine E3, rsym).
Decided on the REAL engine loop (execute_with_callback / execute_at_time); see enginecore.py."""
import z3

from hlib import *  # noqa: F401,F403
import enginecore as ec

ID = "C03"
FEATURES = []
REPLAY_DEPS = 'chrono = { version = "0.4", features = ["serde"] }\n'
FILES = ec.FILES
FUNCTIONS = ec.FUNCTIONS
ASSUMPTIONS = ec.ASSUMPTIONS + [
    "'always returns' is decided as: the symbolic execution of execute terminates with every loop bound obligation unsat (no loop of the engine can run longer than its bound for any rule set of this shape) and the result is Ok",
]
TIERS = {
    "quick": [{"R": 2, "C": 3, "entry": "callback"}, {"R": 3, "C": 3, "entry": "callback", "extras": False}],
    "thorough": [{"R": 3, "C": 2, "entry": "callback"}, {"R": 3, "C": 4, "entry": "callback", "extras": False}, {"R": 2, "C": 3, "entry": "at_time"}],
}
BOUNDS_NOTE = "bounds: R rules (self-triggering and mutually triggering without no-loop included), max_cycles symbolic in 0..C (not 0..64); see runs[].bounds"


def run(R, C, entry, extras=True, witness=False):
    h = Harness(FILES, cap=max(R, 4) + 2, loop_bound=max(C, R) + 2, rec_bound=4)
    ip = h.ip
    d = ec.build(h, R, C, entry, extras)
    out = d["out"]
    h.tag = "result"
    h.require(ip.tag_eq(out, 0), "C03: execute returned an error")
    res = ip.deref(out.pl[0][0])
    maxc = d["maxc"]
    h.require(ip.bi.int_cmp("<=", res.f["cycle_count"], maxc), "C03: cycle_count exceeds max_cycles")
    h.require(ip.eq(res.f["cycle_count"], I(d["cycles"])), "C03: cycle_count differs from 'passes until a pass fired nothing, at most max_cycles'")
    h.require(ip.eq(res.f["rules_fired"], I(d["nfired"])), "C03: rules_fired differs from the number of firings")
    if entry == "callback":
        ncb = z3.Sum([z3.If(zbool(g), 1, 0) for g, _ in d["fired"]] + [z3.IntVal(0)])
        h.require(ip.eq(res.f["rules_fired"], I(ncb)), "C03: rules_fired differs from the number of callback invocations")
    early = ip.bi.int_cmp("<", res.f["cycle_count"], maxc)
    h.require(bor(bnot(early), d["stopped"]), "C03: execution stopped before the bound although the last pass fired a rule")
    h.tag = "fixpoint"
    vi = d["vi"]
    for i in range(R):
        g = ip.deref(h.call("Facts::get", [h.get("facts"), S("flag_%d" % i)]))
        v = ip.deref(g.pl[1][0]) if g.pl.get(1) else None
        if v is not None and v.pl.get(vi["Boolean"]):
            impl_flag = band(ip.tag_eq(g, 1), v.pl[vi["Boolean"]][0])
            # eligibility from the reference bookkeeping, condition from the implementation's final facts
            a = d["rules"][i]
            elig_only = d["final_elig_true"][i]   # = elig ∧ reference flag
            h.require(bor(bnot(early), bnot(band(impl_flag, zbool(elig_only)))),
                      "C03: stopped before the bound but an eligible rule still has a true condition on the final facts (not a fixpoint)")
    rules = d["rules"]
    h.cover(band(d["cycles"] == maxc.v, bnot(d["stopped"]), maxc.v >= 2), "a rule set that keeps firing until the bound (no quiescence)")
    h.cover(band(d["stopped"], d["cycles"] >= 2), "quiescence after at least one firing pass")
    h.cover(maxc.v == 0, "max_cycles = 0")
    if witness:
        h.require(False, "C03 witness")
    r = h.decide()
    r["bounds"] = {"rules": R, "max_cycles_up_to": C, "entry": entry, "activation_actions_and_removed_rule": extras}
    r["harness"] = h
    r["R"], r["entry"] = R, entry
    return r


def decode(res, m):
    return ec.decode_rules(m, res["R"], res["entry"])


def finding_key(msg, trace):
    return msg


replay_source = ec.replay_source

if __name__ == "__main__":
    import sys
    r = run(int(sys.argv[1]), int(sys.argv[2]), sys.argv[3])
    print(r["status"], r["covers"], r["inconclusive"][:5], "wall", r["wall_s"], "decide", r["decide_wall_s"])
    for msg, m in r["violations"]:
        print("VIOLATION", msg, decode(r, m))
