"""Shared harness for C02 / C03: the REAL forward engine (RustRuleEngine::execute_with_callback and
execute_at_time, src/engine/engine.rs) executed symbolically over a small symbolic rule set.

Rule set: R rules. Rule i has a symbolic salience, enabled flag, no_loop, lock_on_active, agenda group in
{none, G}, activation group in {none, X}, optional effective/expiry dates, condition `flag_i == true`
and ONE action `flag_j := b` with symbolic target j and value b (so rules can trigger, disable and
re-trigger each other, including self-triggering rules without no-loop). Facts: flag_0..flag_{R-1}
symbolic booleans. Engine: max_cycles symbolic in 0..C, timeout disabled, focus MAIN or G (symbolic,
set through set_agenda_focus before execution), symbolic evaluation timestamp.

Reference model: a direct transcription of the property statements (not of the code): per pass, the
stored rules are visited in descending salience, insertion order among equals; a visited rule fires iff
it is enabled, in the focused group, inside its date window, not blocked by lock-on-active /
activation-group / no-loop bookkeeping, and its flag is true on the current facts; firing applies its
action at once. Passes stop after the first pass that fired nothing or after max_cycles passes.
"""
import z3

from hlib import *  # noqa: F401,F403

FILES = ["errors.rs", "types.rs", "expression.rs", "engine/facts.rs", "engine/rule.rs", "engine/knowledge_base.rs",
         "engine/agenda.rs", "engine/workflow.rs", "engine/plugin.rs", "engine/analytics.rs", "engine/pattern_matcher.rs",
         "engine/engine.rs"]
FUNCTIONS = ["RustRuleEngine::new", "RustRuleEngine::with_config", "RustRuleEngine::set_agenda_focus",
             "RustRuleEngine::execute_with_callback", "RustRuleEngine::execute_at_time", "RustRuleEngine::evaluate_conditions",
             "RustRuleEngine::evaluate_single_condition", "RustRuleEngine::execute_action", "RustRuleEngine::is_retracted",
             "RustRuleEngine::sync_workflow_agenda_activations", "KnowledgeBase::add_rule", "KnowledgeBase::get_rules_by_salience",
             "KnowledgeBase::get_rule_by_index", "AgendaManager::should_evaluate_rule", "AgendaManager::can_fire_rule",
             "AgendaManager::mark_rule_fired", "AgendaManager::set_focus", "ActivationGroupManager::can_fire",
             "ActivationGroupManager::mark_fired", "ActivationGroupManager::reset_cycle", "Rule::is_active_at",
             "Operator::evaluate", "Facts::get", "Facts::get_nested", "Facts::set", "Facts::set_nested"]
ASSUMPTIONS = [
    "rule sets of R rules of the shape described in checks/enginecore.py (condition flag_i == true, one Set action on a flag); saliences ANY i32",
    "wall-clock timeout disabled (config.timeout = None), debug_mode off, analytics/plugins/workflow engine present but unused",
    "dates are opaque totally ordered instants (chrono::DateTime modelled as one integer); the evaluation timestamp is symbolic (execute_at_time) or irrelevant (no dates, execute_with_callback)",
    "one execute call per history on a fresh engine, after an optional set_agenda_focus; sequences of execute calls, pop/clear focus and workflow scheduling are outside the claim",
    "a rule's single action is Set flag or ActivateAgendaGroup(G|MAIN) (focus moves at once, mid-pass); lock-on-active is NOT combined with activation actions (the engine re-activates the group again at the end-of-cycle workflow sync, which makes 'once per activation' ambiguous)",
    "before the engine is built an extra rule may be added at a symbolic position and removed again (stale order/index after removal)",
    "Vec::sort_by is modelled as a stable sort (std documents stability)",
]


def dt(x):
    return St("DateTime", {"t": I(x, "i64")})


def sopt(cond, s):
    return opt(cond, S(s))


def build(h, R, C, entry, extras=True):
    """returns dict with everything the obligations need"""
    ip = h.ip
    vi = {n: i for i, (n, _) in enumerate(ip.enums["Value"])}
    oi = {n: i for i, (n, _) in enumerate(ip.enums["Operator"])}
    ai = {n: i for i, (n, _) in enumerate(ip.enums["ActionType"])}

    def vbool(b):
        return En("Value", vi["Boolean"], {vi["Boolean"]: [b]})

    rules = []
    h.let("kb", h.call("KnowledgeBase::new", [S("kb")]))
    for i in range(R):
        a = {
            "sal": h.int("sal%d" % i, -2**31, 2**31 - 1, "i32"),
            "en": h.bool("enabled%d" % i),
            "nl": h.bool("noloop%d" % i),
            "lk": h.bool("lock%d" % i),
            "ag": h.bool("in_group_G%d" % i),
            "xg": h.bool("in_actgroup_X%d" % i),
            "tj": h.int("target%d" % i, 0, R - 1).v,
            "tv": h.bool("setto%d" % i),
            "ak": h.int("action_kind%d" % i, 0, 2).v,      # 0 Set flag, 1 ActivateAgendaGroup(G), 2 ActivateAgendaGroup(MAIN)
        }
        if entry == "at_time":
            a["he"] = h.bool("has_effective%d" % i)
            a["hx"] = h.bool("has_expires%d" % i)
            a["de"] = h.int("effective%d" % i, 0, 10, "i64").v
            a["dx"] = h.int("expires%d" % i, 0, 10, "i64").v
        else:
            a["he"] = a["hx"] = False
            a["de"] = a["dx"] = z3.IntVal(0)
        rules.append(a)
        cond = h.call("Condition::new", [S("flag_%d" % i), En("Operator", oi["Equal"], {}), vbool(True)])
        cg = h.call("ConditionGroup::single", [cond])
        tgt = S("flag_%d" % (R - 1))
        for j in range(R - 2, -1, -1):
            tgt = ite(a["tj"] == j, S("flag_%d" % j), tgt)
        act = En("ActionType", z3.If(a["ak"] == 0, ai["Set"], ai["ActivateAgendaGroup"]),
                 {ai["Set"]: {"field": tgt, "value": vbool(a["tv"])},
                  ai["ActivateAgendaGroup"]: {"group": ite(a["ak"] == 1, S("G"), S("MAIN"))}})
        r = ip.deref(h.call("Rule::new", [S("r%d" % i), cg, Vc([act])]))
        f = dict(r.f)
        f["salience"] = a["sal"]
        f["enabled"] = a["en"]
        f["no_loop"] = a["nl"]
        f["lock_on_active"] = a["lk"]
        f["agenda_group"] = sopt(a["ag"], "G")
        f["activation_group"] = sopt(a["xg"], "X")
        f["date_effective"] = opt(a["he"], dt(a["de"]))
        f["date_expires"] = opt(a["hx"], dt(a["dx"]))
        if i == 0:
            rx_pos = h.int("removed_rule_position", 0, R).v     # R = no extra rule
            rx_sal = h.int("removed_rule_salience", -2**31, 2**31 - 1, "i32")
        with ip.under(rx_pos == i):
            fx = dict(r.f)
            fx["name"] = S("rx")
            fx["salience"] = rx_sal
            ip.call("KnowledgeBase::add_rule", [h.ref("kb"), St("Rule", fx)])
        res = ip.deref(ip.call("KnowledgeBase::add_rule", [h.ref("kb"), St("Rule", f)]))
    with ip.under(rx_pos < R):
        ip.call("KnowledgeBase::remove_rule", [h.ref("kb"), S("rx")])
    if not extras:
        # plain rule sets: Set actions only, no removed rule
        for a in rules:
            h.assume(a["ak"] == 0)
        h.assume(rx_pos == R)
    any_lock = bor(*[a["lk"] for a in rules])
    any_act = bor(*[a["ak"] != 0 for a in rules])
    h.assume(bnot(band(any_lock, any_act)))
    maxc = h.int("max_cycles", 0, C, "usize")
    cfg = St("EngineConfig", {"max_cycles": maxc, "timeout": none(), "enable_stats": False, "debug_mode": False})
    h.let("eng", h.call("RustRuleEngine::with_config", [h.get("kb"), cfg]))
    eng = h.ref("eng")
    focus_g = h.bool("focus_on_G")
    with ip.under(focus_g):
        ip.call("RustRuleEngine::set_agenda_focus", [eng, S("G")])
    h.let("facts", h.call("Facts::new", []))
    flags0 = []
    for i in range(R):
        b = h.bool("flag%d" % i)
        flags0.append(b)
        ip.call("Facts::set", [h.ref("facts"), S("flag_%d" % i), vbool(b)])
    now = h.int("now", 0, 10, "i64").v
    fired = []     # implementation firing log: (guard, rule name value)

    def cb(ip_, args):
        fired.append((ip_.g, ip_.deref(args[0])))
        return V.UNIT

    if entry == "callback":
        out = ip.deref(ip.call("RustRuleEngine::execute_with_callback", [eng, h.ref("facts"), V.PyFn(cb)]))
    else:
        out = ip.deref(ip.call("RustRuleEngine::execute_at_time", [eng, h.ref("facts"), dt(now)]))
    # ---------------------------------------------------------------- reference model
    flags = list(flags0)
    # visiting order: position of rule i = number of rules before it (higher salience, or equal and inserted earlier)
    pos = []
    for i in range(R):
        before = [z3.If(z3.Or(rules[j]["sal"].v > rules[i]["sal"].v, z3.And(rules[j]["sal"].v == rules[i]["sal"].v, j < i)), 1, 0) for j in range(R) if j != i]
        pos.append(z3.Sum(before) if before else z3.IntVal(0))
    focus = focus_g                 # current focus is G? (changes when an ActivateAgendaGroup action runs)
    nl_fired = [False] * R          # no-loop bookkeeping (engine lifetime)
    lk_fired = [False] * R          # lock-on-active: fired since the activation of its group
    ref_log = []                    # (guard, rule index)
    stopped = False                 # a pass fired nothing
    cycles = z3.IntVal(0)
    evaluated = z3.IntVal(0)
    nfired = z3.IntVal(0)
    passes_info = []
    for c in range(C):
        run_pass = band(maxc.v > c, bnot(stopped))
        cycles = z3.If(zbool(run_pass), c + 1, cycles)
        xg_fired = False            # activation group X fired in this pass
        any_fired = False
        for p in range(R):
            for i in range(R):
                a = rules[i]
                here = band(run_pass, pos[i] == p)
                in_focus = zbool(a["ag"]) == zbool(focus)
                indate = band(bor(bnot(a["he"]), now >= a["de"]), bor(bnot(a["hx"]), now < a["dx"])) if entry == "at_time" else True
                elig = band(a["en"], in_focus, indate, bnot(band(a["lk"], lk_fired[i])), bnot(band(a["xg"], xg_fired)),
                            bnot(band(a["nl"], nl_fired[i])))
                fire = band(here, elig, flags[i])
                evaluated = evaluated + z3.If(zbool(band(here, elig)), 1, 0)
                ref_log.append((fire, i))
                nfired = nfired + z3.If(zbool(fire), 1, 0)
                any_fired = bor(any_fired, fire)
                xg_fired = bor(xg_fired, band(fire, a["xg"]))
                nl_fired[i] = bor(nl_fired[i], band(fire, a["nl"]))
                lk_fired[i] = bor(lk_fired[i], band(fire, a["lk"]))
                flags = [ite(band(fire, a["ak"] == 0, a["tj"] == j), a["tv"], flags[j]) for j in range(R)]
                focus = ite(band(fire, a["ak"] == 1), True, ite(band(fire, a["ak"] == 2), False, focus))
        stopped = bor(stopped, band(run_pass, bnot(any_fired)))
        passes_info.append((run_pass, any_fired))
    # eligibility on the final facts (for the fixpoint statement)
    final_elig_true = []
    for i in range(R):
        a = rules[i]
        in_focus = zbool(a["ag"]) == zbool(focus)
        indate = band(bor(bnot(a["he"]), now >= a["de"]), bor(bnot(a["hx"]), now < a["dx"])) if entry == "at_time" else True
        elig = band(a["en"], in_focus, indate, bnot(band(a["lk"], lk_fired[i])), bnot(band(a["nl"], nl_fired[i])))
        final_elig_true.append(band(elig, flags[i]))
    return dict(out=out, fired=fired, ref_log=ref_log, cycles=cycles, evaluated=evaluated, nfired=nfired, stopped=stopped,
                flags=flags, flags0=flags0, rules=rules, maxc=maxc, focus_g=focus_g, final_elig_true=final_elig_true, R=R, C=C, vi=vi)


def kth(log, k, name_of):
    """(exists, rule) of the k-th true entry of a guarded log"""
    cnt = z3.IntVal(0)
    ex = False
    val = None
    for g, x in log:
        hit = band(g, cnt == k)
        ex = bor(ex, hit)
        v = name_of(x)
        val = v if val is None else ite(hit, v, val)
        cnt = cnt + z3.If(zbool(g), 1, 0)
    return ex, val, cnt


def decode_rules(m, R, entry):
    rs = []
    for i in range(R):
        r = {"name": "r%d" % i, "salience": m["sal%d" % i], "enabled": m["enabled%d" % i], "no_loop": m["noloop%d" % i],
             "lock_on_active": m["lock%d" % i], "agenda_group": "G" if m["in_group_G%d" % i] else None,
             "activation_group": "X" if m["in_actgroup_X%d" % i] else None, "action": ["flag_%d" % m["target%d" % i], m["setto%d" % i]],
             "action_kind": ["set", "activate_G", "activate_MAIN"][m["action_kind%d" % i]]}
        if entry == "at_time":
            r["date_effective"] = m["effective%d" % i] if m["has_effective%d" % i] else None
            r["date_expires"] = m["expires%d" % i] if m["has_expires%d" % i] else None
        rs.append(r)
    t = {"entry": entry, "rules": rs, "max_cycles": m["max_cycles"], "focus": "G" if m["focus_on_G"] else "MAIN",
         "removed_rule": ({"position": m["removed_rule_position"], "salience": m["removed_rule_salience"]} if m["removed_rule_position"] < R else None),
         "flags": [m["flag%d" % i] for i in range(R)]}
    if entry == "at_time":
        t["now"] = m["now"]
    return t


def replay_source(t):
    R = len(t["rules"])
    adds = []
    for r in t["rules"]:
        actsrc = {"set": 'ActionType::Set { field: "%s".to_string(), value: Value::Boolean(%s) }' % (r["action"][0], str(r["action"][1]).lower()),
                  "activate_G": 'ActionType::ActivateAgendaGroup { group: "G".to_string() }',
                  "activate_MAIN": 'ActionType::ActivateAgendaGroup { group: "MAIN".to_string() }'}[r.get("action_kind", "set")]
        b = ('Rule::new("%s".to_string(), ConditionGroup::single(Condition::new("flag_%s".to_string(), Operator::Equal, Value::Boolean(true))), '
             'vec![%s]).with_salience(%d)' % (r["name"], r["name"][1:], actsrc, r["salience"]))
        if t.get("removed_rule") and t["removed_rule"]["position"] == int(r["name"][1:]):
            adds.append('kb.add_rule(Rule::new("rx".to_string(), ConditionGroup::single(Condition::new("flag_0".to_string(), Operator::Equal, Value::Boolean(true))), vec![]).with_salience(%d)).unwrap();' % t["removed_rule"]["salience"])
        adds.append("{ let mut r = %s; r.enabled = %s; r.no_loop = %s; r.lock_on_active = %s; r.agenda_group = %s; r.activation_group = %s; %s %s kb.add_rule(r).unwrap(); }" % (
            b, str(r["enabled"]).lower(), str(r["no_loop"]).lower(), str(r["lock_on_active"]).lower(),
            'Some("G".to_string())' if r["agenda_group"] else "None", 'Some("X".to_string())' if r["activation_group"] else "None",
            ("r.date_effective = Some(at(%d));" % r["date_effective"]) if r.get("date_effective") is not None else "",
            ("r.date_expires = Some(at(%d));" % r["date_expires"]) if r.get("date_expires") is not None else ""))
    if t.get("removed_rule"):
        adds.append('kb.remove_rule("rx").unwrap();')
    meta = ", ".join("(%d, %s, %s, %s, %s, %s, %d, %s, %s, %s, %d)" % (
        r["salience"], str(r["enabled"]).lower(), str(r["no_loop"]).lower(), str(r["lock_on_active"]).lower(),
        str(bool(r["agenda_group"])).lower(), str(bool(r["activation_group"])).lower(), int(r["action"][0].split("_")[1]),
        str(r["action"][1]).lower(),
        ("Some(%d)" % r["date_effective"]) if r.get("date_effective") is not None else "None",
        ("Some(%d)" % r["date_expires"]) if r.get("date_expires") is not None else "None",
        {"set": 0, "activate_G": 1, "activate_MAIN": 2}[r.get("action_kind", "set")]) for r in t["rules"])
    run = ("let res = eng.execute_with_callback(&facts, |n, _| log.push(n.to_string())).unwrap();" if t["entry"] == "callback"
           else "let res = eng.execute_at_time(&facts, at(%d)).unwrap();" % t.get("now", 0))
    return """
use rust_rule_engine::engine::engine::{EngineConfig, RustRuleEngine};
use rust_rule_engine::engine::facts::Facts;
use rust_rule_engine::engine::knowledge_base::KnowledgeBase;
use rust_rule_engine::engine::rule::{Condition, ConditionGroup, Rule};
use rust_rule_engine::types::{ActionType, Operator, Value};
use chrono::{DateTime, TimeZone, Utc};
fn at(x: i64) -> DateTime<Utc> { Utc.timestamp_opt(1_000_000 + x, 0).unwrap() }
fn main() {
    let kb = KnowledgeBase::new("kb");
    %s
    let mut eng = RustRuleEngine::with_config(kb, EngineConfig { max_cycles: %d, timeout: None, enable_stats: false, debug_mode: false });
    let focus_g = %s;
    if focus_g { eng.set_agenda_focus("G"); }
    let facts = Facts::new();
    let init: Vec<bool> = vec![%s];
    for (i, b) in init.iter().enumerate() { facts.set(&format!("flag_{}", i), Value::Boolean(*b)); }
    let mut log: Vec<String> = Vec::new();
    %s
    // reference ------------------------------------------------------------------
    let meta: Vec<(i32, bool, bool, bool, bool, bool, usize, bool, Option<i64>, Option<i64>, u8)> = vec![%s];
    let mut focus = focus_g;
    let now: i64 = %d; let use_dates = %s;
    let mut order: Vec<usize> = (0..meta.len()).collect();
    order.sort_by(|a, b| meta[*b].0.cmp(&meta[*a].0).then(a.cmp(b)));
    let mut flags = init.clone();
    let (mut nl, mut lk) = (vec![false; meta.len()], vec![false; meta.len()]);
    let mut want: Vec<String> = Vec::new();
    let (mut cycles, mut evaluated) = (0usize, 0usize);
    for c in 0..%d {
        cycles = c + 1;
        let mut xg = false; let mut any = false;
        for &i in &order {
            let m = meta[i];
            let indate = !use_dates || (m.8.map_or(true, |e| now >= e) && m.9.map_or(true, |x| now < x));
            let elig = m.1 && (m.4 == focus) && indate && !(m.3 && lk[i]) && !(m.5 && xg) && !(m.2 && nl[i]);
            if !elig { continue; }
            evaluated += 1;
            if flags[i] { want.push(format!("r{}", i)); any = true; if m.5 { xg = true; } if m.2 { nl[i] = true; } if m.3 { lk[i] = true; } if m.10 == 0 { flags[m.6] = m.7; } else { focus = m.10 == 1; } }
        }
        if !any { break; }
    }
    let mut bad: Vec<String> = Vec::new();
    if %s && log != want { bad.push(format!("firing sequence {:?} != reference {:?}", log, want)); }
    if res.rules_fired != want.len() { bad.push(format!("rules_fired {} != {}", res.rules_fired, want.len())); }
    if res.cycle_count != cycles { bad.push(format!("cycle_count {} != {}", res.cycle_count, cycles)); }
    if res.cycle_count > %d { bad.push("cycle_count above max_cycles".into()); }
    if res.rules_evaluated != evaluated { bad.push(format!("rules_evaluated {} != {}", res.rules_evaluated, evaluated)); }
    for (i, f) in flags.iter().enumerate() { if facts.get(&format!("flag_{}", i)) != Some(Value::Boolean(*f)) { bad.push(format!("final flag_{} differs from the reference", i)); } }
    if bad.is_empty() { println!("NOT-REPRODUCED"); } else { println!("REPRODUCED: {:?}", bad); }
}
""" % ("\n    ".join(adds), t["max_cycles"], "true" if t["focus"] == "G" else "false", ", ".join(str(b).lower() for b in t["flags"]),
       run, meta, t.get("now", 0), "true" if t["entry"] == "at_time" else "false", t["max_cycles"],
       "true" if t["entry"] == "callback" else "false", t["max_cycles"])
