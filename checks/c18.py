"""C18 — module imports stay acyclic and visibility matches the declarations (engine E3, rsym).

Real code executed symbolically: src/engine/module.rs — ModuleManager::{new, create_module,
delete_module, get_module, get_module_mut, export_all_from, import_from,
import_from_with_reexport, detect_cycle, is_rule_visible, get_visible_rules},
Module::{new, add_rule, set_exports, add_import, exports_rule, should_re_export_rule,
get_rules, get_imports}, pattern_matches.

Histories: K operations with symbolic arguments from
  create_module(m) | delete_module(m) | add_rule(m, r) | export_all_from(m, All|None|Specific(pattern))
  | import_from(to, from, AllRules|AllTemplates|All, pattern)
over modules {MAIN, A, B, C}, rules {r1, r2, x1}, patterns {*, r1, r*, *1}.
"""
import z3

from hlib import *  # noqa: F401,F403

ID = "C18"
FEATURES = []
FILES = ["errors.rs", "engine/module.rs"]
FUNCTIONS = ["ModuleManager::new", "ModuleManager::create_module", "ModuleManager::delete_module",
             "ModuleManager::get_module", "ModuleManager::get_module_mut", "ModuleManager::export_all_from",
             "ModuleManager::import_from", "ModuleManager::import_from_with_reexport", "ModuleManager::detect_cycle",
             "ModuleManager::is_rule_visible", "Module::new", "Module::add_rule", "Module::set_exports",
             "Module::add_import", "Module::exports_rule", "Module::should_re_export_rule", "pattern_matches"]
MODS = ["MAIN", "A", "B", "C"]
RULES = ["r1", "r2", "x1"]
PATS = ["*", "r1", "r*", "*1"]
TIERS = {
    "quick": [{"K": 5, "mods": 3}],
    "thorough": [{"K": 6, "mods": 3}, {"K": 5, "mods": 4}],
}
ASSUMPTIONS = [
    "module names from {MAIN, A, B, C}, rule names from {r1, r2, x1}, patterns from {*, r1, r*, *1}; re-export declarations not used",
    "'imports' of a module are read from the module's own declaration list (get_imports); the oracle checks that visibility answers and agrees with declarations, exports and ownership",
    "strings are interned alternatives (no free strings); HashMap/HashSet/Vec/VecDeque bounded slot models, one fixed iteration order",
]
BOUNDS_NOTE = "bounds: K operations over `mods` module names (see runs[].bounds); templates, re-exports, salience and validation reports are outside the claim"


def pick(h, name, options):
    i = h.int(name, 0, len(options) - 1).v
    s = S(options[-1])
    for j in range(len(options) - 2, -1, -1):
        s = ite(i == j, S(options[j]), s)
    return i, s


def pmatch(p, r):
    if p == "*":
        return True
    if p.endswith("*"):
        return r.startswith(p[:-1])
    if p.startswith("*"):
        return r.endswith(p[1:])
    return p == r


def run(K, mods=3, witness=False):
    M = MODS[:mods]
    h = Harness(FILES, cap=max(K, 4) + 1, loop_bound=K + len(M) + 3, rec_bound=4)
    ip = h.ip
    it = {n: i for i, (n, _) in enumerate(ip.enums["ImportType"])}
    ity = {n: i for i, (n, _) in enumerate(ip.enums["ItemType"])}
    el = {n: i for i, (n, _) in enumerate(ip.enums["ExportList"])}
    h.let("mm", h.call("ModuleManager::new", []))
    mm = h.ref("mm")
    nM, nR, nP = len(M), len(RULES), len(PATS)
    exists = {m: (m == "MAIN") for m in M}
    owns = {(m, r): False for m in M for r in RULES}
    ekind = {m: (0 if m == "MAIN" else 1) for m in M}      # 0 All 1 None 2 Specific
    epat = {m: z3.IntVal(0) for m in M}
    saw_refused_cycle = False
    saw_delete_imported = False
    saw_visible_import = False
    ops = []

    def decl_edges():
        """edges among modules from the implementation's own declaration lists"""
        st = h.get("mm")
        e = {}
        decls = {}
        for a in M:
            found, mod = ip.bi.map_lookup(st.f["modules"], S(a))
            lst = []
            if mod is not None:
                for p, d in ip.bi.vec_seq(mod.f["imports"]):
                    lst.append((band(found, p), d))
            decls[a] = (found, lst)
            for b in M:
                e[(a, b)] = bor(*[band(p, ip.eq(d.f["from_module"], S(b))) for p, d in lst])
        return e, decls

    def closure(e):
        r = dict(e)
        for k in M:
            r = {(a, b): bor(r[(a, b)], band(r[(a, k)], r[(k, b)])) for a in M for b in M}
        return r

    for step in range(K):
        h.tag = 'step%d' % step
        op = h.int("op%d" % step, 0, 4).v
        mi, ms = pick(h, "m%d" % step, M)
        fi, fs = pick(h, "f%d" % step, M)
        ri, rs = pick(h, "r%d" % step, RULES)
        pi_, ps = pick(h, "p%d" % step, PATS)
        ek = h.int("ek%d" % step, 0, 2).v
        ty = h.int("ty%d" % step, 0, 2).v
        ops.append(step)
        e0, d0 = decl_edges()
        reach0 = closure({(a, b): band(e0[(a, b)], exists[a], exists[b]) for a in M for b in M})
        cnt0 = {a: ip.deref(ip.bi.map_lookup(h.get("mm").f["modules"], S(a))[1]) for a in M}

        with ip.under(op == 0):
            r0 = ip.deref(ip.call("ModuleManager::create_module", [mm, ms]))
        with ip.under(op == 1):
            r1 = ip.deref(ip.call("ModuleManager::delete_module", [mm, ms]))
        with ip.under(op == 2):
            gm = ip.deref(ip.call("ModuleManager::get_module_mut", [mm, ms]))
            ok2 = ip.tag_eq(gm, 0)
            with ip.under(ok2):
                if ip.g is not False and gm.pl.get(0) and gm.pl[0][0] is not None:
                    ip.call("Module::add_rule", [gm.pl[0][0], rs])
        with ip.under(op == 3):
            spec = En("ExportList", z3.If(ek == 0, el["All"], z3.If(ek == 1, el["None"], el["Specific"])),
                      {el["Specific"]: [Vc([St("ExportItem", {"item_type": En("ItemType", ity["Rule"], {}), "pattern": ps})])]})
            r3 = ip.deref(ip.call("ModuleManager::export_all_from", [mm, ms, spec]))
        with ip.under(op == 4):
            tyv = En("ImportType", z3.If(ty == 0, it["AllRules"], z3.If(ty == 1, it["AllTemplates"], it["All"])), {})
            r4 = ip.deref(ip.call("ModuleManager::import_from", [mm, ms, fs, tyv, ps]))

        # model + obligations -------------------------------------------------------
        for a in M:
            sel = mi == M.index(a)
            created = band(op == 0, sel, bnot(exists[a]))
            deleted = band(op == 1, sel, exists[a], a != "MAIN")
            if a != "MAIN":
                saw_delete_imported = bor(saw_delete_imported, band(deleted, bor(*[band(e0[(b, a)], exists[b]) for b in M if b != a])))
            for r in RULES:
                owns[(a, r)] = band(bor(owns[(a, r)], band(op == 2, sel, exists[a], ri == RULES.index(r))), bnot(deleted), bnot(created))
            setexp = band(op == 3, sel, exists[a])
            ekind[a] = z3.If(zbool(created), 0 if a == "MAIN" else 1, z3.If(zbool(setexp), ek, ekind[a]))
            epat[a] = z3.If(zbool(setexp), pi_, epat[a])
            exists[a] = band(bor(exists[a], created), bnot(deleted))
        # import: refused exactly... (property: a cycle-closing import is refused and changes nothing)
        e1, d1 = decl_edges()
        with ip.under(op == 4):
            closes = bor(*[band(mi == M.index(a), fi == M.index(b), bor(a == b, reach0[(b, a)])) for a in M for b in M])
            refused = ip.tag_eq(r4, 1)
            h.require(bor(bnot(closes), refused), "C18: an import that closes a cycle was accepted")
            saw_refused_cycle = bor(saw_refused_cycle, band(ip.g, closes, refused, bnot(mi == fi)))
            for a in M:
                for b in M:
                    h.require(bor(bnot(refused), zbool(e0[(a, b)]) == zbool(e1[(a, b)])), "C18: a refused import changed the import declarations")
                n0 = I(cnt0[a].f["imports"].n) if cnt0[a] is not None else I(0)
                cur = ip.bi.map_lookup(h.get("mm").f["modules"], S(a))[1]
                n1 = I(cur.f["imports"].n) if cur is not None else I(0)
                h.require(bor(bnot(refused), bnot(exists[a]), ip.eq(n0, n1)), "C18: a refused import changed the import declarations")
        # invariant: declared imports among existing modules are acyclic
        reach1 = closure({(a, b): band(e1[(a, b)], exists[a], exists[b]) for a in M for b in M})
        for a in M:
            h.require(bnot(reach1[(a, a)]), "C18: the import relation among existing modules has a cycle")
        # visibility queries on existing modules answer and agree with declarations/exports/ownership
        def exports(fm, r):
            byspec = bor(*[band(epat[fm] == PATS.index(p), pmatch(p, r)) for p in PATS])
            return band(owns[(fm, r)], bor(ekind[fm] == 0, band(ekind[fm] == 2, byspec)))
        for a in M:
            found, lst = d1[a]
            for r in RULES:
                v = ip.deref(ip.call("ModuleManager::is_rule_visible", [h.get("mm"), S(r), S(a)]))
                answered = ip.tag_eq(v, 0)
                h.require(bor(bnot(exists[a]), answered), "C18: a visibility query on an existing module returned an error")
                via = False
                for p, d in lst:
                    tyok = bor(ip.tag_eq(d.f["import_type"], it["AllRules"]), ip.tag_eq(d.f["import_type"], it["Rules"]), ip.tag_eq(d.f["import_type"], it["All"]))
                    pm = bor(*[band(ip.eq(d.f["pattern"], S(pt)), pmatch(pt, r)) for pt in PATS])
                    src = bor(*[band(ip.eq(d.f["from_module"], S(b)), exists[b], exports(b, r)) for b in M])
                    via = bor(via, band(p, tyok, pm, src))
                want = bor(owns[(a, r)], via)
                if v.pl.get(0):
                    h.require(bor(bnot(band(exists[a], answered)), zbool(v.pl[0][0]) == zbool(want)),
                              "C18: rule visibility differs from 'owns it or imports it with a matching pattern from a module that exports it'")
                saw_visible_import = bor(saw_visible_import, band(exists[a], via, bnot(owns[(a, r)])))
    h.cover(saw_refused_cycle, "a cycle-closing import between two modules was refused")
    h.cover(saw_delete_imported, "a module that another module imports from was deleted")
    h.cover(saw_visible_import, "a rule was visible through an import")
    if witness:
        h.require(False, "C18 witness: end of harness reached")
    res = h.decide()
    res["bounds"] = {"operations": K, "modules": M}
    res["harness"] = h
    res["K"], res["M"] = K, M
    return res


def decode(res, m):
    M = res["M"]
    out = []
    for s in range(res["K"]):
        op = m["op%d" % s]
        mod = M[m["m%d" % s]]
        if op == 0:
            out.append({"op": "create_module", "module": mod})
        elif op == 1:
            out.append({"op": "delete_module", "module": mod})
        elif op == 2:
            out.append({"op": "add_rule", "module": mod, "rule": RULES[m["r%d" % s]]})
        elif op == 3:
            out.append({"op": "export", "module": mod, "kind": ["All", "None", "Specific"][m["ek%d" % s]], "pattern": PATS[m["p%d" % s]]})
        else:
            out.append({"op": "import_from", "to": mod, "from": M[m["f%d" % s]], "type": ["AllRules", "AllTemplates", "All"][m["ty%d" % s]],
                        "pattern": PATS[m["p%d" % s]]})
    return out


def finding_key(msg, trace):
    deleted = set()
    stale = False
    imports = []
    for o in trace:
        if o["op"] == "import_from":
            imports.append((o["to"], o["from"]))
        if o["op"] == "delete_module" and any(f == o["module"] for _, f in imports):
            stale = True
    return ("after-deleting-an-imported-module|" if stale else "no-deletion-of-imported-module|") + msg


def replay_source(trace):
    lines = []
    for o in trace:
        if o["op"] == "create_module":
            lines.append('let _ = mm.create_module("%s").map(|_| ()); exists.insert("%s".to_string());' % (o["module"], o["module"]))
        elif o["op"] == "delete_module":
            lines.append('if mm.delete_module("%s").is_ok() { exists.remove("%s"); }' % (o["module"], o["module"]))
        elif o["op"] == "add_rule":
            lines.append('if let Ok(m) = mm.get_module_mut("%s") { m.add_rule("%s"); }' % (o["module"], o["rule"]))
        elif o["op"] == "export":
            spec = {"All": "ExportList::All", "None": "ExportList::None",
                    "Specific": 'ExportList::Specific(vec![ExportItem { item_type: ItemType::Rule, pattern: "%s".to_string() }])' % o["pattern"]}[o["kind"]]
            lines.append('let _ = mm.export_all_from("%s", %s);' % (o["module"], spec))
        else:
            lines.append('{ let closes = reach(&mm, &exists, "%s", "%s") || "%s" == "%s"; let before = snapshot(&mm); let r = mm.import_from("%s", "%s", ImportType::%s, "%s"); '
                         'if closes && r.is_ok() { bad.push("cycle-closing import accepted".to_string()); } if r.is_err() && before != snapshot(&mm) { bad.push("refused import changed declarations".to_string()); } }'
                         % (o["from"], o["to"], o["to"], o["from"], o["to"], o["from"], o["type"], o["pattern"]))
        lines.append("check(&mm, &exists, &mut bad);")
    return """
use rust_rule_engine::engine::module::*;
use std::collections::BTreeSet;

const RULES: [&str; 3] = ["r1", "r2", "x1"];
fn pm(p: &str, r: &str) -> bool { if p == "*" { true } else if let Some(x) = p.strip_suffix('*') { r.starts_with(x) } else if let Some(x) = p.strip_prefix('*') { r.ends_with(x) } else { p == r } }
fn edges(mm: &ModuleManager, exists: &BTreeSet<String>) -> Vec<(String, String)> {
    let mut e = Vec::new();
    for a in exists { if let Ok(m) = mm.get_module(a) { for d in m.get_imports() { if exists.contains(&d.from_module) { e.push((a.clone(), d.from_module.clone())); } } } }
    e
}
fn reach(mm: &ModuleManager, exists: &BTreeSet<String>, from: &str, to: &str) -> bool {
    let e = edges(mm, exists);
    let mut seen: BTreeSet<String> = BTreeSet::new(); let mut st = vec![from.to_string()];
    while let Some(x) = st.pop() { for (a, b) in &e { if *a == x && seen.insert(b.clone()) { st.push(b.clone()); } } }
    seen.contains(to)
}
fn snapshot(mm: &ModuleManager) -> Vec<(String, Vec<String>)> {
    let mut v: Vec<(String, Vec<String>)> = mm.list_modules().into_iter().map(|n| { let m = mm.get_module(&n).unwrap(); (n.clone(), m.get_imports().iter().map(|d| format!("{}:{:?}:{}", d.from_module, d.import_type, d.pattern)).collect()) }).collect();
    v.sort(); v
}
fn check(mm: &ModuleManager, exists: &BTreeSet<String>, bad: &mut Vec<String>) {
    for a in exists { if reach(mm, exists, a, a) { bad.push(format!("import cycle through {}", a)); } }
    for a in exists {
        let m = match mm.get_module(a) { Ok(m) => m, Err(_) => { bad.push(format!("module {} missing", a)); continue; } };
        for r in RULES.iter() {
            let mut want = m.get_rules().contains(*r);
            for d in m.get_imports() {
                if !matches!(d.import_type, ImportType::AllRules | ImportType::Rules | ImportType::All) { continue; }
                if !exists.contains(&d.from_module) { continue; }
                let f = mm.get_module(&d.from_module).unwrap();
                let exp = f.get_rules().contains(*r) && match f.get_exports() { ExportList::All => true, ExportList::None => false, ExportList::Specific(items) => items.iter().any(|i| matches!(i.item_type, ItemType::Rule | ItemType::All) && pm(&i.pattern, r)) };
                if exp && pm(&d.pattern, r) { want = true; }
            }
            match mm.is_rule_visible(r, a) {
                Ok(v) => if v != want { bad.push(format!("visibility of {} in {}: {} != {}", r, a, v, want)); },
                Err(e) => bad.push(format!("visibility query on existing module {} returned an error: {}", a, e)),
            }
        }
    }
}
fn main() {
    let mut mm = ModuleManager::new();
    let mut exists: BTreeSet<String> = BTreeSet::new(); exists.insert("MAIN".to_string());
    let mut bad: Vec<String> = Vec::new();
    %s
    if bad.is_empty() { println!("NOT-REPRODUCED"); } else { println!("REPRODUCED: {:?}", bad); }
}
""" % "\n    ".join(lines)


if __name__ == "__main__":
    import sys
    r = run(int(sys.argv[1]), int(sys.argv[2]) if len(sys.argv) > 2 else 3)
    print(r["status"], r["covers"], r["inconclusive"][:5], "wall", r["wall_s"], "decide", r["decide_wall_s"])
    for msg, m in r["violations"]:
        print("VIOLATION", msg, decode(r, m), finding_key(msg, decode(r, m)))
