"""C14 — stream inner join equals the reference join for every interleaving (engine rsym).

Real code executed symbolically: src/rete/stream_join_node.rs — StreamJoinNode::{new, process_left, process_right,
update_watermark, is_within_window, evict_expired_events, get_window_duration, generate_event_id} with JoinType::Inner
and JoinStrategy::TimeWindow.

Histories: K steps, each symbolic: left arrival | right arrival | watermark advance. An arrival carries a fresh event
(id e<step>) with a symbolic timestamp from 0..T and a symbolic join key from {none, k1, k2}; the join condition is an
arbitrary (symbolic) relation over event pairs; the window length is symbolic in 0..3 s. Quantifying over every sequence of
side-tagged arrivals IS quantifying over every pair of per-stream sequences and every merge of them.

Obligations over the whole run (all returned vectors together):
  (sound)    every emitted pair is (a left arrival, a right arrival) with equal keys, |ts_l - ts_r| <= window and a true
             join condition, and no pair is emitted twice — in EVERY run, with or without evictions;
  (complete) if no watermark advance came within eviction distance of an already arrived event (w - ts <= window for all
             of them, "nothing has been evicted"), every such pair is emitted exactly once. Exactness makes the result a
             function of the two event sets alone, i.e. independent of the interleaving.
"""
import z3

import values as V
from hlib import *  # noqa: F401,F403

ID = "C14"
FEATURES = ["streaming"]
FILES = ["errors.rs", "types.rs", "streaming/event.rs", "rete/stream_join_node.rs"]
FUNCTIONS = ["StreamJoinNode::new", "StreamJoinNode::process_left", "StreamJoinNode::process_right", "StreamJoinNode::update_watermark",
             "StreamJoinNode::is_within_window", "StreamJoinNode::evict_expired_events", "StreamJoinNode::get_window_duration",
             "StreamJoinNode::generate_event_id"]
KEYS = ["k1", "k2"]
T = 6
ASSUMPTIONS = [
    "JoinType::Inner, JoinStrategy::TimeWindow with a whole number of seconds 0..3; timestamps 0..6 (the node compares timestamps and seconds directly)",
    "every arrival is a fresh event with a unique id (StreamEvent::new draws a uuid); keys from {none, k1, k2}; the join condition is an arbitrary relation over event pairs, fixed for the run",
    "key extractors and the join condition are harness callbacks (the node stores them as boxed closures)",
    "format!(\"{}_{}\", id, ts) of a symbolic timestamp is an injective arithmetic code (equal texts <=> equal id and equal timestamp); HashMap iteration = one fixed order (results are compared as multisets)",
]
BOUNDS_NOTE = "bounds: K steps (arrivals and watermark advances together, see runs[].bounds); five-step histories only for the 12 step-kind sequences in PICK5 (checks/c14.py); outer joins, count/session windows and join_manager routing are outside the claim"


def mk_event(step, ts):
    return St("StreamEvent", {"id": S("e%d" % step), "event_type": S("t"), "data": Mp([]),
                              "metadata": St("EventMetadata", {"timestamp": I(ts, "u64"), "source": S("s"), "sequence": I(0, "u64"), "tags": Mp([])})})


# K=5 step-kind sequences that are NOT run: measured > 45 s .. > 240 s single-core (four arrivals followed by a watermark
# re-scan, and their left/right mirror images); they are outside the thorough claim and listed in the bounds note
SLOW5 = {"LLRRW", "LLRWW", "LLWRW", "LRLRW", "LRLWW", "LRRLW", "RLLRW", "RLLWW", "RLRLW", "RLRWW", "RRLLW", "RRLWW", "RRWLW", "LRRWW"}


# the five-step sequences the thorough tier runs (20-45 s each, run one after the other): mixed sides with a watermark
# advance in the middle, repeated arrivals on one side, leading watermarks. 177 of the 180 sequences were run once while
# building (each held; LLRWW, LRLWW, RLLRW did not finish in 240 s); running them all takes > 80 min, so the registered
# tier keeps this selection
PICK5 = ["LRWLR", "RLWRL", "LWRLR", "RWLRL", "LLWRL", "RWRLR", "LWWRL", "WLLRR", "LLLRR", "RRLRL", "WRWLR", "LRWLL"]


def shapes(K):
    """all step-kind sequences of length K with at least one left and one right arrival (L/R/W per step)"""
    import itertools
    return ["".join(p) for p in itertools.product("LRW", repeat=K) if "L" in p and "R" in p]


TIERS = {
    "quick": [{"K": 3}] + [{"K": 4, "shape": x} for x in shapes(4)],
    "thorough": [{"K": 3}] + [{"K": 4, "shape": x} for x in shapes(4)] + [{"K": 5, "shape": x} for x in PICK5],
}

def run(K, T=T, W=3, shape=None, witness=False):
    """shape=None: the kind of every step is symbolic. shape="LRWL...": case split — the step kinds are fixed, everything
    else (timestamps, keys, window, watermark values, join-condition relation) stays symbolic; all shapes together cover
    exactly the histories of the fully symbolic run"""
    h = Harness(FILES, cap=K + 2, loop_bound=K + 3, rec_bound=4)
    ip = h.ip
    jt = {n: i for i, (n, _) in enumerate(ip.enums["JoinType"])}
    js = {n: i for i, (n, _) in enumerate(ip.enums["JoinStrategy"])}
    d = h.int("window_s", 0, W).v
    ev = []          # per step: dict(side: 0 left / 1 right / 2 watermark, ts, key index 0 none/1/2, w)
    for s in range(K):
        ev.append({"op": h.int("op%d" % s, 0, 2).v if shape is None else z3.IntVal("LRW".index(shape[s])), "ts": h.int("ts%d" % s, 0, T).v, "key": h.int("key%d" % s, 0, len(KEYS)).v,
                   "w": h.int("watermark%d" % s, 0, T + 4, "i64").v})
    C = [[h.bool("cond_%d_%d" % (i, j)) for j in range(K)] for i in range(K)]

    def id_is(e, i):
        return ip.eq(ip.deref(e).f["id"], S("e%d" % i))

    def key_of(ip_, args):
        e = ip_.deref(args[0])
        res = none()
        for i in range(K):
            for kx, kn in enumerate(KEYS):
                res = ite(band(id_is(e, i), ev[i]["key"] == kx + 1), some(S(kn)), res)
        return res

    def cond(ip_, args):
        l, r = ip_.deref(args[0]), ip_.deref(args[1])
        return bor(*[band(id_is(l, i), id_is(r, j), C[i][j]) for i in range(K) for j in range(K) if i != j])

    strategy = En("JoinStrategy", js["TimeWindow"], {js["TimeWindow"]: {"duration": St("Duration", {"ms": I(d * 1000, "u128")})}})
    h.let("node", h.call("StreamJoinNode::new", [S("L"), S("R"), En("JoinType", jt["Inner"], {}), strategy,
                                                V.PyFn(key_of), V.PyFn(key_of), V.PyFn(cond)]))
    node = h.ref("node")
    emitted = [[z3.IntVal(0) for _ in range(K)] for _ in range(K)]       # emitted[i][j]: times (left e_i, right e_j) was returned
    malformed = False
    no_evict = True
    for s in range(K):
        h.tag = "step%d" % s
        e = ev[s]
        outs = []
        with ip.under(e["op"] == 0):
            outs.append((e["op"] == 0, ip.deref(ip.call("StreamJoinNode::process_left", [node, mk_event(s, e["ts"])]))))
        with ip.under(e["op"] == 1):
            outs.append((e["op"] == 1, ip.deref(ip.call("StreamJoinNode::process_right", [node, mk_event(s, e["ts"])]))))
        with ip.under(e["op"] == 2):
            outs.append((e["op"] == 2, ip.deref(ip.call("StreamJoinNode::update_watermark", [node, I(e["w"], "i64")]))))
        for i in range(s):
            no_evict = band(no_evict, bor(e["op"] != 2, ev[i]["op"] == 2, e["w"] - ev[i]["ts"] <= d))
        for g, r in outs:
            n = r.n if not isinstance(r.n, int) else z3.IntVal(r.n)
            for p, el in enumerate(r.items):
                inb = band(g, n > p)
                if inb is False:
                    continue
                je = ip.deref(el)
                lo, ro = ip.deref(je.f["left"]), ip.deref(je.f["right"])
                both = band(ip.tag_eq(lo, 1), ip.tag_eq(ro, 1))
                malformed = bor(malformed, band(inb, bnot(both)))
                if not (lo.pl.get(1) and ro.pl.get(1)):
                    continue
                le, re_ = lo.pl[1][0], ro.pl[1][0]
                known = False
                for i in range(s + 1):
                    for j in range(s + 1):
                        if i == j:
                            continue
                        hit = band(inb, both, id_is(le, i), id_is(re_, j))
                        emitted[i][j] = emitted[i][j] + z3.If(zbool(hit), 1, 0)
                        known = bor(known, hit)
                malformed = bor(malformed, band(inb, both, bnot(known)))
        h.require(bnot(malformed), "C14: an inner join returned something that is not a (left event, right event) pair of arrived events")
    h.tag = "end"
    saw_pair = False
    for i in range(K):
        for j in range(K):
            if i == j:
                continue
            h.tag = "pair_%d_%d" % (i, j)
            absd = z3.If(ev[i]["ts"] >= ev[j]["ts"], ev[i]["ts"] - ev[j]["ts"], ev[j]["ts"] - ev[i]["ts"])
            want = z3.And(ev[i]["op"] == 0, ev[j]["op"] == 1, ev[i]["key"] != 0, ev[i]["key"] == ev[j]["key"], absd <= d, zbool(C[i][j]))
            h.require(emitted[i][j] <= 1, "C14: a pair was emitted more than once")
            h.require(z3.Implies(emitted[i][j] >= 1, want), "C14: an emitted pair does not satisfy the join (sides, equal keys, window, condition)")
            h.require(z3.Implies(z3.And(zbool(no_evict), want), emitted[i][j] >= 1), "C14: a joining pair was never emitted although nothing had been evicted")
            saw_pair = bor(saw_pair, band(want, emitted[i][j] == 1))
    h.cover(saw_pair, "a pair was joined and emitted")
    if shape is None:
        h.cover(band(saw_pair, bnot(no_evict)), "a watermark advance went past the window of an arrived event")
    if witness:
        h.require(False, "C14 witness")
    res = h.decide()
    res["bounds"] = {"steps": K, "timestamps": [0, T], "keys": KEYS, "window_s": [0, W]}
    res["harness"] = h
    res["K"] = K
    res["shape"] = shape
    if shape is not None:
        res["bounds"]["step_kinds"] = shape
    return res


def decode(res, m):
    K = res["K"]
    out = [{"window_s": m["window_s"], "condition_true_for": [[i, j] for i in range(K) for j in range(K) if i != j and m["cond_%d_%d" % (i, j)]]}]
    for s in range(K):
        op = m["op%d" % s] if res.get("shape") is None else "LRW".index(res["shape"][s])
        if op == 2:
            out.append({"op": "watermark", "value": m["watermark%d" % s]})
        else:
            k = m["key%d" % s]
            out.append({"op": "left" if op == 0 else "right", "id": "e%d" % s, "ts": m["ts%d" % s], "key": None if k == 0 else KEYS[k - 1]})
    return out


def finding_key(msg, trace):
    wm = any(o.get("op") == "watermark" for o in trace[1:])
    return ("with-watermark|" if wm else "arrivals-only|") + msg


def replay_source(trace):
    hd, ops = trace[0], trace[1:]
    d = hd["window_s"]
    conds = ", ".join('("e%d".to_string(), "e%d".to_string())' % (i, j) for i, j in hd["condition_true_for"])
    keys = ", ".join('("%s".to_string(), "%s".to_string())' % (o["id"], o["key"]) for o in ops if o["op"] != "watermark" and o["key"])
    L = []
    for s, o in enumerate(ops):
        if o["op"] == "watermark":
            L.append("collect(node.update_watermark(%d), &mut got, &mut bad);" % o["value"])
        else:
            L.append('{ let mut e = StreamEvent::with_timestamp("t", HashMap::new(), "s", %d); e.id = "%s".to_string(); %s.push(("%s".to_string(), %d)); collect(node.process_%s(e), &mut got, &mut bad); }'
                     % (o["ts"], o["id"], "lefts" if o["op"] == "left" else "rights", o["id"], o["ts"], o["op"]))
    # nothing evicted: no watermark advance beyond the window of an event that had arrived before it
    no_evict = True
    seen = []
    for o in ops:
        if o["op"] == "watermark":
            if any(o["value"] - t > d for t in seen):
                no_evict = False
        else:
            seen.append(o["ts"])
    return """
use rust_rule_engine::rete::stream_join_node::{JoinStrategy, JoinType, JoinedEvent, StreamJoinNode};
use rust_rule_engine::streaming::event::StreamEvent;
use std::collections::{HashMap, HashSet};
use std::time::Duration;
fn collect(v: Vec<JoinedEvent>, got: &mut Vec<(String, String)>, bad: &mut Vec<String>) {
    for j in v { match (j.left, j.right) { (Some(l), Some(r)) => got.push((l.id, r.id)), _ => bad.push("inner join returned a one-sided result".to_string()) } }
}
fn main() {
    let keys: HashMap<String, String> = vec![%s].into_iter().collect();
    let conds: HashSet<(String, String)> = vec![%s].into_iter().collect();
    let (k1, k2, c) = (keys.clone(), keys.clone(), conds.clone());
    let mut node = StreamJoinNode::new("L".to_string(), "R".to_string(), JoinType::Inner, JoinStrategy::TimeWindow { duration: Duration::from_secs(%d) },
        Box::new(move |e: &StreamEvent| k1.get(&e.id).cloned()), Box::new(move |e: &StreamEvent| k2.get(&e.id).cloned()),
        Box::new(move |l: &StreamEvent, r: &StreamEvent| c.contains(&(l.id.clone(), r.id.clone()))));
    let mut got: Vec<(String, String)> = Vec::new();
    let mut bad: Vec<String> = Vec::new();
    let mut lefts: Vec<(String, i64)> = Vec::new();
    let mut rights: Vec<(String, i64)> = Vec::new();
    %s
    let mut want: Vec<(String, String)> = Vec::new();
    for (l, tl) in &lefts { for (r, tr) in &rights {
        if keys.get(l).is_some() && keys.get(l) == keys.get(r) && (tl - tr).abs() <= %d && conds.contains(&(l.clone(), r.clone())) { want.push((l.clone(), r.clone())); }
    } }
    for p in &got { if !want.contains(p) { bad.push(format!("emitted pair {:?} does not satisfy the join", p)); } }
    for p in &got { if got.iter().filter(|q| *q == p).count() > 1 { bad.push(format!("pair {:?} emitted more than once", p)); } }
    if %s { for p in &want { if !got.contains(p) { bad.push(format!("joining pair {:?} never emitted although nothing was evicted", p)); } } }
    if bad.is_empty() { println!("NOT-REPRODUCED"); } else { println!("REPRODUCED: {:?}", bad); }
}
""" % (keys, conds, d, "\n    ".join(L), d, "true" if no_evict else "false")


if __name__ == "__main__":
    import sys
    r = run(int(sys.argv[1]))
    print(r["status"], r["covers"], r["inconclusive"][:5], "wall", r["wall_s"], "decide", r["decide_wall_s"])
    for msg, m in r["violations"]:
        tr = decode(r, m)
        print("VIOLATION", msg, tr, finding_key(msg, tr))
