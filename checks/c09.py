"""C09 — backward chaining proves only derivable goals, and finds bounded proofs (engine E3, rsym).
Decided on the REAL BackwardEngine::query; see bwdcore.py for the rule-set shape."""
import z3

from hlib import *  # noqa: F401,F403
import bwdcore as bc

ID = "C09"
FEATURES = ["backward-chaining"]
FILES = bc.FILES
FUNCTIONS = bc.FUNCTIONS
ASSUMPTIONS = bc.ASSUMPTIONS + [
    "soundness for strategies DFS/BFS/iterative (symbolic); bounded completeness for DFS through conjunctive rules; memoisation off (one query per engine), max_solutions 1",
]
TIERS = {
    "quick": [{"R": 2, "D": 2}],
    "thorough": [{"R": 3, "D": 2}, {"R": 2, "D": 4}],
}
BOUNDS_NOTE = "bounds: R rules, max_depth symbolic in 0..D (see runs[].bounds); max_solutions > 1, wrong-value conclusions and attached RETE engines outside the claim"


def run(R, D, strategy=None, depth_fixed=None, witness=False):
    h = Harness(FILES, cap=max(R, 4) + 2, loop_bound=max(R, D) + 4, rec_bound=D + 4)
    ip = h.ip
    rules, vi, vbool = bc.build_kb(h, R)
    st = bc.facts_sym(h, vbool, "f")
    depth = h.int("max_depth", 0, D, "usize")
    strat = h.int("strategy", 0, 2).v
    if depth_fixed is not None:
        h.assume(depth.v == depth_fixed)
        depth = I(depth_fixed, "usize")
    if strategy is not None:
        h.assume(strat == strategy)
        strat = z3.IntVal(strategy)
    bc.mk_engine(h, "eng", strat, depth, False)
    out = ip.deref(ip.call("BackwardEngine::query", [h.ref("eng"), S("g == true"), h.ref("f")]))
    h.tag = "result"
    h.require(ip.tag_eq(out, 0), "C09: query returned an error on a well-formed goal")
    res = ip.deref(out.pl[0][0])
    prov = res.f["provable"]
    after = bc.read_facts(h, "f", vi)
    lv = bc.closure_levels(rules, st, R + 1)
    full = lv[-1][0]["g"]
    h.require(bor(bnot(prov), band(*after["g"])), "C09: reported provable but the goal comparison is false in the facts handed back")
    h.require(bor(bnot(prov), full), "C09: reported provable but the goal is not in the forward closure of the rule set on the initial facts")
    # bounded completeness (DFS, conjunctive derivations of height <= max_depth)
    si = {n: i for i, (n, _) in enumerate(ip.enums["SearchStrategy"])}
    for d in range(D + 1):
        h.tag = "complete%d" % d
        within = lv[min(d, len(lv) - 1)][1]["g"]
        h.require(bor(bnot(band(strat == si["DepthFirst"], depth.v == d, within)), prov),
                  "C09: a goal with a conjunctive derivation of height <= max_depth was reported not provable (DFS)")
    h.cover(band(prov, bnot(bc.truth(st, "g")), bnot(lv[1][0]["g"])), "a goal proved through a chain of at least two rules")
    h.cover(band(bnot(prov), full), "a derivable goal not proved because of the depth bound")
    h.cover(bnot(full), "an underivable goal")
    if witness:
        h.require(False, "C09 witness")
    r = h.decide()
    r["bounds"] = {"rules": R, "max_depth_up_to": D}
    r["harness"] = h
    r["R"] = R
    return r


def decode(res, m):
    return {"rules": bc.decode_common(m, res["R"]), "facts": bc.decode_facts(m), "max_depth": m["max_depth"],
            "strategy": ["DepthFirst", "BreadthFirst", "Iterative"][m["strategy"]]}


def finding_key(msg, trace):
    return msg


def replay_source(t):
    return bc.RUST_PRELUDE + """
fn main() {
    let rules = %s;
    let init = %s;
    let depth: usize = %d;
    let mut eng = BackwardEngine::with_config(kb(&rules), BackwardConfig { max_depth: depth, strategy: SearchStrategy::%s, enable_memoization: false, max_solutions: 1 });
    let mut f = facts(&init);
    let res = eng.query("g == true", &mut f);
    let mut bad: Vec<String> = Vec::new();
    match res {
        Err(e) => bad.push(format!("query error: {}", e)),
        Ok(r) => {
            let full = levels(&rules, &init, rules.len() + 1, false);
            let conj = levels(&rules, &init, rules.len() + 1, true);
            let derivable = full.last().unwrap().contains(&"g".to_string());
            if r.provable && f.get("g") != Some(Value::Boolean(true)) { bad.push("provable but g is not true in the facts handed back".into()); }
            if r.provable && !derivable { bad.push("provable but g is not in the forward closure".into()); }
            let within = conj[depth.min(conj.len() - 1)].contains(&"g".to_string());
            if %s && within && !r.provable { bad.push(format!("derivation of height <= {} exists but not provable", depth)); }
        }
    }
    if bad.is_empty() { println!("NOT-REPRODUCED"); } else { println!("REPRODUCED: {:?}", bad); }
}
""" % (bc.rust_rules(t["rules"]), bc.rust_facts(t["facts"]), t["max_depth"], t["strategy"], "true" if t["strategy"] == "DepthFirst" else "false")


if __name__ == "__main__":
    import sys
    r = run(int(sys.argv[1]), int(sys.argv[2]), strategy=int(sys.argv[3]) if len(sys.argv) > 3 else None, depth_fixed=int(sys.argv[4]) if len(sys.argv) > 4 else None)
    print(r["status"], r["covers"], r["inconclusive"][:5], "wall", r["wall_s"], "decide", r["decide_wall_s"])
    for msg, m in r["violations"]:
        print("VIOLATION", msg, decode(r, m))
