"""C11 — a query's answer does not depend on earlier queries (engine E3, rsym).
Decided on the REAL BackwardEngine::query (memoisation on, the default); see bwdcore.py."""
import z3

from hlib import *  # noqa: F401,F403
import bwdcore as bc

ID = "C11"
FEATURES = ["backward-chaining"]
FILES = bc.FILES
FUNCTIONS = bc.FUNCTIONS
ASSUMPTIONS = bc.ASSUMPTIONS + [
    "histories of TWO queries on one engine (first query: the same goal text, or - separate runs - a different goal 'a == true' / 'g == false'; second query 'g == true'), the caller's facts replaced by arbitrary other facts in between; compared with a fresh engine on the second facts",
    "strategy DepthFirst, max_depth fixed (see bounds), enable_memoization symbolic (default true)",
]
TIERS = {
    "quick": [{"R": 1, "D": 1}],
    "thorough": [{"R": 1, "D": 2}, {"R": 1, "D": 1, "Q1": "a == true"}],
}
BOUNDS_NOTE = "bounds: R rules, two queries, max_depth D (see runs[].bounds); longer query sequences, different goal texts and attached RETE engines are outside the claim (R >= 2 did not finish: 25 min cap)"


def run(R, D, Q1="g == true", witness=False):
    h = Harness(FILES, cap=max(R, 4) + 2, loop_bound=max(R, D) + 4, rec_bound=D + 4)
    ip = h.ip
    rules, vi, vbool = bc.build_kb(h, R)
    memo = h.bool("enable_memoization")
    si = bc.mk_engine(h, "eng", z3.IntVal(0), I(D, "usize"), memo)
    bc.mk_engine(h, "fresh", z3.IntVal(0), I(D, "usize"), memo)
    st1 = bc.facts_sym(h, vbool, "f1")
    st2 = bc.facts_sym(h, vbool, "f2")
    # an identical copy of the second facts for the fresh engine (queries may change the facts they are given)
    h.let("f2c", h.call("Facts::new", []))
    for k in bc.POOL + ["g"]:
        p, v = st2[k]
        with ip.under(p):
            ip.call("Facts::set", [h.ref("f2c"), S(k), vbool(v)])
    h.tag = "q1"
    o1 = ip.deref(ip.call("BackwardEngine::query", [h.ref("eng"), S(Q1), h.ref("f1")]))
    h.tag = "q2"
    o2 = ip.deref(ip.call("BackwardEngine::query", [h.ref("eng"), S("g == true"), h.ref("f2")]))
    h.tag = "fresh"
    of = ip.deref(ip.call("BackwardEngine::query", [h.ref("fresh"), S("g == true"), h.ref("f2c")]))
    h.tag = "compare"
    h.require(band(ip.tag_eq(o1, 0), ip.tag_eq(o2, 0), ip.tag_eq(of, 0)), "C11: a query returned an error")
    p1 = ip.deref(o1.pl[0][0]).f["provable"]
    p2 = ip.deref(o2.pl[0][0]).f["provable"]
    pf = ip.deref(of.pl[0][0]).f["provable"]
    # two separate obligations, so that the known finding (memoisation ignores the facts) cannot mask a
    # violation with memoisation switched off
    with ip.under(memo):
        h.require(zbool(p2) == zbool(pf), "C11: with memoisation ON the answer to the second query differs from what a fresh engine gives on the same facts")
    with ip.under(bnot(memo)):
        h.require(zbool(p2) == zbool(pf), "C11: with memoisation OFF the answer to the second query differs from what a fresh engine gives on the same facts")
    h.cover(band(p1, bnot(pf)), "first query provable, second facts make the goal unprovable")
    h.cover(band(bnot(p1), pf), "first query unprovable, second facts make the goal provable")
    if witness:
        h.require(False, "C11 witness")
    r = h.decide()
    r["bounds"] = {"rules": R, "max_depth": D, "queries": 2, "first_query": Q1, "second_query": "g == true"}
    r["Q1"] = Q1
    r["harness"] = h
    r["R"], r["D"] = R, D
    return r


def decode(res, m):
    return {"rules": bc.decode_common(m, res["R"]), "facts1": bc.decode_facts(m, "f1"), "facts2": bc.decode_facts(m, "f2"),
            "max_depth": res["D"], "first_query": res["Q1"], "enable_memoization": m["enable_memoization"]}


def finding_key(msg, trace):
    return ("memoization-on|" if trace.get("enable_memoization") else "memoization-off|") + ("C11: second answer differs from a fresh engine" if "differs" in msg else "C11: error")


def replay_source(t):
    return bc.RUST_PRELUDE + """
fn main() {
    let rules = %s;
    let (i1, i2) = (%s, %s);
    let cfg = || BackwardConfig { max_depth: %d, strategy: SearchStrategy::DepthFirst, enable_memoization: %s, max_solutions: 1 };
    let mut eng = BackwardEngine::with_config(kb(&rules), cfg());
    let mut fresh = BackwardEngine::with_config(kb(&rules), cfg());
    let (mut f1, mut f2, mut f2c) = (facts(&i1), facts(&i2), facts(&i2));
    let mut bad: Vec<String> = Vec::new();
    let r1 = eng.query("%s", &mut f1);
    let r2 = eng.query("g == true", &mut f2);
    let rf = fresh.query("g == true", &mut f2c);
    match (r1, r2, rf) {
        (Ok(_), Ok(b), Ok(c)) => if b.provable != c.provable { bad.push(format!("second query on the used engine: provable={} ; fresh engine on the same facts: provable={}", b.provable, c.provable)); },
        _ => bad.push("a query returned an error".into()),
    }
    if bad.is_empty() { println!("NOT-REPRODUCED"); } else { println!("REPRODUCED: {:?}", bad); }
}
""" % (bc.rust_rules(t["rules"]), bc.rust_facts(t["facts1"]), bc.rust_facts(t["facts2"]), t["max_depth"], str(bool(t["enable_memoization"])).lower(), t.get("first_query", "g == true"))


if __name__ == "__main__":
    import sys
    r = run(int(sys.argv[1]), int(sys.argv[2]), *(sys.argv[3:4]))
    print(r["status"], r["covers"], r["inconclusive"][:5], "wall", r["wall_s"], "decide", r["decide_wall_s"])
    for msg, m in r["violations"]:
        print("VIOLATION", msg, decode(r, m), finding_key(msg, decode(r, m)))
