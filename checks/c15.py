"""C15 (sequential clause) — knowledge base lookups, order and version stay consistent (engine E3, rsym).

Real code executed symbolically: src/engine/knowledge_base.rs — KnowledgeBase::{new, add_rule,
remove_rule, get_rule, get_rules, get_rules_by_salience, get_rule_by_index, get_rule_names,
rule_count, set_rule_enabled, clear, version}.

Histories: K operations with symbolic arguments over rule names {r1..r4}:
  add_rule(name, ANY i32 salience) | remove_rule(name) | set_rule_enabled(name, flag) | clear
"""
import z3

from hlib import *  # noqa: F401,F403

ID = "C15"
FEATURES = []
FILES = ["errors.rs", "types.rs", "engine/rule.rs", "engine/knowledge_base.rs"]
FUNCTIONS = ["KnowledgeBase::new", "KnowledgeBase::add_rule", "KnowledgeBase::remove_rule", "KnowledgeBase::get_rule",
             "KnowledgeBase::get_rules", "KnowledgeBase::get_rules_by_salience", "KnowledgeBase::get_rule_by_index",
             "KnowledgeBase::get_rule_names", "KnowledgeBase::rule_count", "KnowledgeBase::set_rule_enabled",
             "KnowledgeBase::clear", "KnowledgeBase::version"]
NAMES = ["r1", "r2", "r3", "r4"]
TIERS = {
    "quick": [{"K": 5, "names": 4}],
    "thorough": [{"K": 6, "names": 3}, {"K": 5, "names": 4}],
}
ASSUMPTIONS = [
    "sequential histories only: the concurrent/linearizability half of C15 is NOT covered (locks are transparent in the single-threaded model)",
    "rule names from {r1..r4}; salience ANY i32; conditions/actions of the rules are opaque payloads (never read by the knowledge base)",
    "Vec::sort_by_key / sort_by are modelled as a stable insertion sort (std documents both as stable)",
]
BOUNDS_NOTE = "bounds: K operations over `names` rule names (see runs[].bounds); GRL import/export outside the claim"


def pick(h, name, options):
    i = h.int(name, 0, len(options) - 1).v
    s = S(options[-1])
    for j in range(len(options) - 2, -1, -1):
        s = ite(i == j, S(options[j]), s)
    return i, s


def mk_rule(ip, name, sal):
    from interp import ty_simple
    f = {}
    for fn, ty in ip.structs["Rule"][1]:
        if fn == "name":
            f[fn] = name
        elif fn == "salience":
            f[fn] = sal
        elif fn == "enabled":
            f[fn] = True
        else:
            t = ty_simple(ty)
            try:
                f[fn] = ip.bi.default_of(t)
            except Exception:
                f[fn] = Opaque(fn)
    return St("Rule", f)


def run(K, names=3, witness=False):
    NS = NAMES[:names]
    h = Harness(FILES, cap=max(K, names) + 1, loop_bound=K + names + 3, rec_bound=4)
    ip = h.ip
    h.let("kb", h.call("KnowledgeBase::new", [S("kb")]))
    kb = h.ref("kb")
    present = {n: False for n in NS}
    sal = {n: z3.IntVal(0) for n in NS}
    seq = {n: z3.IntVal(0) for n in NS}
    en = {n: True for n in NS}
    ver = z3.IntVal(0)
    saw_dup = False
    saw_tie = False
    saw_remove_then_lookup = False
    removed_any = False
    for step in range(K):
        h.tag = "step%d" % step
        op = h.int("op%d" % step, 0, 3).v
        ni, ns = pick(h, "name%d" % step, NS)
        s_ = h.int("sal%d" % step, -2**31, 2**31 - 1, "i32")
        flag = h.bool("flag%d" % step)
        v0 = ip.deref(h.call("KnowledgeBase::version", [h.get("kb")]))
        with ip.under(op == 0):
            r0 = ip.deref(ip.call("KnowledgeBase::add_rule", [kb, mk_rule(ip, ns, s_)]))
        with ip.under(op == 1):
            r1 = ip.deref(ip.call("KnowledgeBase::remove_rule", [kb, ns]))
        with ip.under(op == 2):
            r2 = ip.deref(ip.call("KnowledgeBase::set_rule_enabled", [kb, ns, flag]))
        with ip.under(op == 3):
            ip.call("KnowledgeBase::clear", [kb])
        # model -------------------------------------------------------------------------
        had = bor(*[band(ni == NS.index(n), present[n]) for n in NS])
        changed = bor(band(op == 0, bnot(had)), band(op == 1, had), band(op == 2, had), op == 3)
        with ip.under(op == 0):
            h.require(zbool(ip.tag_eq(r0, 1)) == zbool(had), "C15: add_rule must fail exactly for a duplicate name")
            saw_dup = bor(saw_dup, band(ip.g, had))
        with ip.under(op == 1):
            if r1.pl.get(0):
                h.require(band(ip.tag_eq(r1, 0), zbool(r1.pl[0][0]) == zbool(had)), "C15: remove_rule result differs from whether the rule existed")
        with ip.under(op == 2):
            if r2.pl.get(0):
                h.require(band(ip.tag_eq(r2, 0), zbool(r2.pl[0][0]) == zbool(had)), "C15: set_rule_enabled result differs from whether the rule existed")
        for n in NS:
            sel = ni == NS.index(n)
            added = band(op == 0, sel, bnot(present[n]))
            sal[n] = z3.If(zbool(added), s_.v, sal[n])
            seq[n] = z3.If(zbool(added), step + 1, seq[n])
            en[n] = ite(added, True, ite(band(op == 2, sel, present[n]), flag, en[n]))
            present[n] = band(bor(present[n], added), bnot(band(op == 1, sel)), bnot(op == 3))
        removed_any = bor(removed_any, band(op == 1, had))
        ver = z3.If(zbool(changed), ver + 1, ver)
        v1 = ip.deref(h.call("KnowledgeBase::version", [h.get("kb")]))
        h.require(bor(bnot(changed), ip.bi.int_cmp(">", v1, v0)), "C15: the version did not grow with a successful change")
        h.require(bor(changed, ip.eq(v1, v0)), "C15: the version changed although nothing changed (e.g. rejected duplicate)")
        # lookups -----------------------------------------------------------------------------
        cnt = z3.Sum([z3.If(zbool(present[n]), 1, 0) for n in NS])
        for n in NS:
            got = ip.deref(h.call("KnowledgeBase::get_rule", [h.get("kb"), S(n)]))
            h.require(zbool(ip.tag_eq(got, 1)) == zbool(present[n]), "C15: get_rule finds a rule exactly when it is stored")
            if got.pl.get(1):
                r = ip.deref(got.pl[1][0])
                with ip.under(band(ip.tag_eq(got, 1), present[n])):
                    h.require(ip.eq(r.f["name"], S(n)), "C15: get_rule returned a rule with a different name (stale index)")
                    h.require(ip.eq(r.f["salience"], I(sal[n])), "C15: get_rule returned a rule other than the one most recently added under that name")
                    h.require(zbool(r.f["enabled"]) == zbool(en[n]), "C15: enabled flag differs from the last set_rule_enabled")
            saw_remove_then_lookup = bor(saw_remove_then_lookup, band(removed_any, present[n]))
        rules = ip.deref(h.call("KnowledgeBase::get_rules", [h.get("kb")]))
        h.require(ip.eq(I(rules.n), I(cnt)), "C15: listing does not return every stored rule exactly once")
        h.require(ip.eq(h.call("KnowledgeBase::rule_count", [h.get("kb")]), I(cnt)), "C15: rule_count differs from the number of stored rules")
        lst = ip.bi.vec_seq(rules)
        for n in NS:
            occ = [band(p, ip.eq(r.f["name"], S(n))) for p, r in lst]
            h.require(z3.Sum([z3.If(zbool(o), 1, 0) for o in occ] + [z3.IntVal(0)]) == z3.If(zbool(present[n]), 1, 0),
                      "C15: listing does not return every stored rule exactly once")
        def seq_of(r):
            e = z3.IntVal(0)
            for n in NS:
                e = z3.If(zbool(ip.eq(r.f["name"], S(n))), seq[n], e)
            return e
        for i in range(len(lst) - 1):
            (p1, a), (p2, b) = lst[i], lst[i + 1]
            both = band(p1, p2)
            h.require(bor(bnot(both), ip.bi.int_cmp(">=", a.f["salience"], b.f["salience"])), "C15: listing is not in descending salience")
            tie = ip.eq(a.f["salience"], b.f["salience"])
            h.require(bor(bnot(band(both, tie)), seq_of(a) < seq_of(b)), "C15: equal-salience rules are not listed in insertion order")
            saw_tie = bor(saw_tie, band(both, tie))
        # index order view
        idx = ip.deref(h.call("KnowledgeBase::get_rules_by_salience", [h.get("kb")]))
        il = ip.bi.vec_seq(idx)
        h.require(ip.eq(I(idx.n), I(cnt)), "C15: get_rules_by_salience does not cover every stored rule")
        prev = None
        for p, ix in il:
            g = ip.deref(h.call("KnowledgeBase::get_rule_by_index", [h.get("kb"), ix]))
            h.require(bor(bnot(p), ip.tag_eq(g, 1)), "C15: get_rules_by_salience returned an index without a rule")
            if g.pl.get(1):
                r = ip.deref(g.pl[1][0])
                if prev is not None:
                    pp, pr = prev
                    both = band(pp, p)
                    h.require(bor(bnot(both), ip.bi.int_cmp(">=", pr.f["salience"], r.f["salience"])), "C15: get_rules_by_salience is not in descending salience")
                    h.require(bor(bnot(band(both, ip.eq(pr.f["salience"], r.f["salience"]))), seq_of(pr) < seq_of(r)),
                              "C15: get_rules_by_salience breaks insertion order among equal salience")
                prev = (p, r)
        names_ = ip.deref(h.call("KnowledgeBase::get_rule_names", [h.get("kb")]))
        h.require(ip.eq(I(names_.n), I(cnt)), "C15: get_rule_names differs from the stored rules")
        for n in NS:
            h.require(zbool(bor(*[band(p, ip.eq(x, S(n))) for p, x in ip.bi.vec_seq(names_)])) == zbool(present[n]),
                      "C15: get_rule_names differs from the stored rules")
    h.cover(saw_dup, "a duplicate name was offered")
    h.cover(saw_tie, "two stored rules had equal salience")
    h.cover(saw_remove_then_lookup, "a rule was looked up after another removal")
    if witness:
        h.require(False, "C15 witness")
    res = h.decide()
    res["bounds"] = {"operations": K, "names": NS}
    res["harness"] = h
    res["K"], res["NS"] = K, NS
    return res


def decode(res, m):
    out = []
    for s in range(res["K"]):
        op = m["op%d" % s]
        n = res["NS"][m["name%d" % s]]
        if op == 0:
            out.append({"op": "add_rule", "name": n, "salience": m["sal%d" % s]})
        elif op == 1:
            out.append({"op": "remove_rule", "name": n})
        elif op == 2:
            out.append({"op": "set_rule_enabled", "name": n, "enabled": m["flag%d" % s]})
        else:
            out.append({"op": "clear"})
    return out


def finding_key(msg, trace):
    return msg


def replay_source(trace):
    lines = []
    for o in trace:
        if o["op"] == "add_rule":
            lines.append('{ let v0 = kb.version(); let dup = model.iter().any(|r| r.0 == "%s"); let r = kb.add_rule(mk("%s", %d)); if r.is_err() != dup { bad.push("add_rule duplicate handling".into()); } if !dup { seq += 1; model.push(("%s".to_string(), %d, seq, true)); if kb.version() <= v0 { bad.push("version did not grow".into()); } } else if kb.version() != v0 { bad.push("version changed on rejected duplicate".into()); } }'
                         % (o["name"], o["name"], o["salience"], o["name"], o["salience"]))
        elif o["op"] == "remove_rule":
            lines.append('{ let v0 = kb.version(); let had = model.iter().any(|r| r.0 == "%s"); let r = kb.remove_rule("%s").unwrap(); if r != had { bad.push("remove_rule result".into()); } model.retain(|r| r.0 != "%s"); if had && kb.version() <= v0 { bad.push("version did not grow".into()); } if !had && kb.version() != v0 { bad.push("version changed".into()); } }'
                         % (o["name"], o["name"], o["name"]))
        elif o["op"] == "set_rule_enabled":
            lines.append('{ let v0 = kb.version(); let had = model.iter().any(|r| r.0 == "%s"); let r = kb.set_rule_enabled("%s", %s).unwrap(); if r != had { bad.push("set_rule_enabled result".into()); } for x in model.iter_mut() { if x.0 == "%s" { x.3 = %s; } } if had && kb.version() <= v0 { bad.push("version did not grow".into()); } if !had && kb.version() != v0 { bad.push("version changed".into()); } }'
                         % (o["name"], o["name"], str(o["enabled"]).lower(), o["name"], str(o["enabled"]).lower()))
        else:
            lines.append("{ let v0 = kb.version(); kb.clear(); model.clear(); if kb.version() <= v0 { bad.push(\"version did not grow\".into()); } }")
        lines.append("check(&kb, &model, &mut bad);")
    return """
use rust_rule_engine::engine::knowledge_base::KnowledgeBase;
use rust_rule_engine::engine::rule::{Condition, ConditionGroup, Rule};
use rust_rule_engine::types::{ActionType, Operator, Value};

fn mk(name: &str, sal: i32) -> Rule {
    Rule::new(name.to_string(), ConditionGroup::single(Condition::new("x".to_string(), Operator::Equal, Value::Integer(1))), vec![ActionType::Log { message: "m".to_string() }]).with_salience(sal)
}
fn check(kb: &KnowledgeBase, model: &Vec<(String, i32, u32, bool)>, bad: &mut Vec<String>) {
    for n in ["r1", "r2", "r3", "r4"] {
        let m = model.iter().find(|r| r.0 == n);
        match (kb.get_rule(n), m) {
            (Some(r), Some(x)) => { if r.name != n { bad.push(format!("get_rule({}) returned {} (stale index)", n, r.name)); } if r.salience != x.1 { bad.push(format!("get_rule({}) salience {} != {}", n, r.salience, x.1)); } if r.enabled != x.3 { bad.push(format!("enabled flag of {}", n)); } }
            (None, None) => {}
            (g, _) => bad.push(format!("get_rule({}) is_some={} but stored={}", n, g.is_some(), m.is_some())),
        }
    }
    let mut want: Vec<&(String, i32, u32, bool)> = model.iter().collect();
    want.sort_by(|a, b| b.1.cmp(&a.1).then(a.2.cmp(&b.2)));
    let got: Vec<String> = kb.get_rules().iter().map(|r| r.name.clone()).collect();
    let wn: Vec<String> = want.iter().map(|r| r.0.clone()).collect();
    if got != wn { bad.push(format!("listing {:?} != expected {:?}", got, wn)); }
    let byidx: Vec<String> = kb.get_rules_by_salience().iter().map(|i| kb.get_rule_by_index(*i).map(|r| r.name).unwrap_or_default()).collect();
    if byidx != wn { bad.push(format!("get_rules_by_salience order {:?} != expected {:?}", byidx, wn)); }
    if kb.rule_count() != model.len() { bad.push("rule_count".into()); }
    let mut names = kb.get_rule_names(); names.sort(); let mut mn: Vec<String> = model.iter().map(|r| r.0.clone()).collect(); mn.sort();
    if names != mn { bad.push("get_rule_names".into()); }
}
fn main() {
    let kb = KnowledgeBase::new("kb");
    let mut model: Vec<(String, i32, u32, bool)> = Vec::new();
    let mut seq = 0u32;
    let mut bad: Vec<String> = Vec::new();
    %s
    if bad.is_empty() { println!("NOT-REPRODUCED"); } else { println!("REPRODUCED: {:?}", bad); }
}
""" % "\n    ".join(lines)


if __name__ == "__main__":
    import sys
    r = run(int(sys.argv[1]), int(sys.argv[2]) if len(sys.argv) > 2 else 3)
    print(r["status"], r["covers"], r["inconclusive"][:5], "wall", r["wall_s"], "decide", r["decide_wall_s"])
    for msg, m in r["violations"]:
        print("VIOLATION", msg, decode(r, m))
