"""C16 — indexes return what the plain computation returns (engine rsym). Three of the four clauses:

(alpha) "Filtering an alpha memory by a field value returns the same facts with or without an index on that field,
        across any interleaving of inserts and index creation or removal": the REAL AlphaMemoryIndex::{insert,
        create_index, drop_index, filter, filter_tracked} against the plain computation `fact.get(field) == Some(value)`
        (FactValue's derived PartialEq: IEEE equality on floats, structural otherwise).
(beta)  "a join-key lookup returns exactly the live facts carrying that key": the REAL BetaMemoryIndex::{add, remove,
        lookup} against the set of added-and-not-removed fact numbers whose join-key value renders as the looked-up key.
(concl) "the backward-chaining conclusion index proposes every enabled rule that assigns the goal's field": the REAL
        ConclusionIndex::{add_rule, remove_rule, find_candidates} against a scan of the indexed rules' Set actions.

The memoisation clause (MemoizedEvaluator: keys are DefaultHasher outputs) is NOT covered.

Values range over a candidate set chosen where printed forms collide across types and where == is not textual identity:
Integer 1/0, Float 1.0/0.0/-0.0/NaN, String "1"/"1.0"/"NaN"/"Integer(1)", Boolean true, Null, Array [Integer 1],
Array [Float -0.0], Array [Float 0.0], Array [Float NaN].
"""
import math

import z3

from hlib import *  # noqa: F401,F403

ID = "C16"
FEATURES = ["backward-chaining"]
FILES = ["errors.rs", "types.rs", "rete/facts.rs", "rete/alpha_memory_index.rs", "rete/optimization.rs", "engine/rule.rs",
         "backward/conclusion_index.rs"]
FUNCTIONS = ["AlphaMemoryIndex::new", "AlphaMemoryIndex::insert", "AlphaMemoryIndex::create_index", "AlphaMemoryIndex::drop_index",
             "AlphaMemoryIndex::filter", "AlphaMemoryIndex::filter_tracked", "BetaMemoryIndex::new", "BetaMemoryIndex::add",
             "BetaMemoryIndex::remove", "BetaMemoryIndex::lookup", "ConclusionIndex::new", "ConclusionIndex::add_rule",
             "ConclusionIndex::remove_rule", "ConclusionIndex::find_candidates", "TypedFacts::new", "TypedFacts::set", "TypedFacts::get"]
NAN = float("nan")
VALS = [("Integer", 1), ("Integer", 0), ("Float", 1.0), ("Float", 0.0), ("Float", -0.0), ("Float", NAN), ("String", "1"),
        ("String", "1.0"), ("String", "NaN"), ("String", "Integer(1)"), ("Boolean", True), ("Null",),
        ("Array", [("Integer", 1)]), ("Array", [("Float", -0.0)]), ("Array", [("Float", 0.0)]), ("Array", [("Float", NAN)])]
FIELDS = ["f", "g"]
TIERS = {
    "quick": [{"mode": "alpha", "K": 4}, {"mode": "beta", "K": 5}, {"mode": "concl", "K": 4}],
    "thorough": [{"mode": "alpha", "K": 4}, {"mode": "beta", "K": 6}, {"mode": "concl", "K": 5}],      # alpha K=5: one query needed 508 s even over 4 candidates
}
ASSUMPTIONS = [
    "fact values from the candidate set in checks/c16.py (printed forms that collide across types, signed zeros, NaN, arrays); field names {f, g}; every fact carries a unique Integer `id`",
    "format!(\"{:?}\", FactValue) is modelled as derive(Debug) output (`Variant(payload)`, f64 by Rust's shortest round-trip text, strings quoted); HashMap iteration = one fixed order",
    "conclusion index: rules named r0..r2 with one or two Set actions over fields {a, a.x, a.y, ab.x, b}, symbolic enabled flag; goals `<field>` or `<field> == true`",
    "the memoisation clause of C16 (MemoizedEvaluator, DefaultHasher keys) is NOT covered",
]
BOUNDS_NOTE = "bounds: K operations per history (see runs[].bounds); candidate value set finite; auto_tune and statistics outside the claim"


def val_eq(a, b):
    """derive(PartialEq) on FactValue"""
    if a[0] != b[0]:
        return False
    if a[0] == "Null":
        return True
    if a[0] == "Float":
        return a[1] == b[1]          # IEEE: NaN != NaN, 0.0 == -0.0
    if a[0] == "Array":
        return len(a[1]) == len(b[1]) and all(val_eq(x, y) for x, y in zip(a[1], b[1]))
    return a[1] == b[1]


def rust_f64(x):
    if x != x:
        return "f64::NAN"
    return repr(x) + "_f64"


def rust_val(v):
    k = v[0]
    if k == "Integer":
        return "FactValue::Integer(%d)" % v[1]
    if k == "Float":
        return "FactValue::Float(%s)" % rust_f64(v[1])
    if k == "String":
        return 'FactValue::String("%s".to_string())' % v[1]
    if k == "Boolean":
        return "FactValue::Boolean(%s)" % str(v[1]).lower()
    if k == "Null":
        return "FactValue::Null"
    return "FactValue::Array(vec![%s])" % ", ".join(rust_val(x) for x in v[1])


def debug_text(v):
    """Rust `{:?}` of the candidate (used by the beta reference and the replay)"""
    k = v[0]
    if k == "Integer":
        return "Integer(%d)" % v[1]
    if k == "Float":
        x = v[1]
        t = "NaN" if x != x else ("-0.0" if (x == 0 and math.copysign(1, x) < 0) else repr(x))
        return "Float(%s)" % t
    if k == "String":
        return 'String("%s")' % v[1]
    if k == "Boolean":
        return "Boolean(%s)" % str(v[1]).lower()
    if k == "Null":
        return "Null"
    return "Array([%s])" % ", ".join(debug_text(x) for x in v[1])


def mk_val(ip, v):
    fi = {n: i for i, (n, _) in enumerate(ip.enums["FactValue"])}
    k = v[0]
    if k == "Integer":
        p = [I(v[1], "i64")]
    elif k == "Float":
        p = [F(v[1])]
    elif k == "String":
        p = [S(v[1])]
    elif k == "Boolean":
        p = [v[1]]
    elif k == "Null":
        return En("FactValue", fi["Null"], {})
    else:
        p = [Vc([mk_val(ip, x) for x in v[1]])]
    return En("FactValue", fi[k], {fi[k]: p})


def pick_val(h, name, vals):
    i = h.int(name, 0, len(vals) - 1).v
    grouped = {}
    for j, v in enumerate(vals):
        grouped.setdefault(v[0], []).append(j)
    # build one En whose tag and per-variant payload are ite chains (structural ite does this for us)
    res = mk_val(h.ip, vals[-1])
    for j in range(len(vals) - 2, -1, -1):
        res = ite(i == j, mk_val(h.ip, vals[j]), res)
    return i, res


def pick(h, name, options):
    i = h.int(name, 0, len(options) - 1).v
    s = S(options[-1])
    for j in range(len(options) - 2, -1, -1):
        s = ite(i == j, S(options[j]), s)
    return i, s


def count(bs):
    return sum([z3.If(zbool(b), 1, 0) for b in bs]) if bs else z3.IntVal(0)


def matches(vals, i, k, table):
    """z3: candidate index i relates to candidate index k under the python relation table[a][b]"""
    return bor(*[band(i == a, k == b) for a in range(len(vals)) for b in range(len(vals)) if table[a][b]])


# ---------------------------------------------------------------------------------------------------------------- alpha
def run_alpha(h, K, vals):
    ip = h.ip
    fi = {n: i for i, (n, _) in enumerate(ip.enums["FactValue"])}
    EQ = [[val_eq(a, b) for b in vals] for a in vals]
    h.let("am", h.call("AlphaMemoryIndex::new", []))
    am = h.ref("am")
    facts = []           # reference: dict(ins(bool), has{field: bool}, vi{field: z3 int})
    indexed = {f: False for f in FIELDS}
    saw_indexed_filter = False
    saw_insert_after_index = False
    saw_nonempty = False
    for step in range(K):
        h.tag = "step%d" % step
        op = h.int("op%d" % step, 0, 4).v          # insert | create_index | drop_index | filter | filter_tracked
        fldi, flds = pick(h, "field%d" % step, FIELDS)
        qi, qv = pick_val(h, "value%d" % step, vals)
        # the fact to insert: f = value (or missing), g = second value (or missing)
        has_f, has_g = h.bool("has_f%d" % step), h.bool("has_g%d" % step)
        gi, gv = pick_val(h, "gvalue%d" % step, vals)
        h.let("fact", h.call("TypedFacts::new", []))
        ip.call("TypedFacts::set", [h.ref("fact"), S("id"), mk_val(ip, ("Integer", step))])
        with ip.under(has_f):
            ip.call("TypedFacts::set", [h.ref("fact"), S("f"), qv])
        with ip.under(has_g):
            ip.call("TypedFacts::set", [h.ref("fact"), S("g"), gv])
        with ip.under(op == 0):
            ip.call("AlphaMemoryIndex::insert", [am, h.get("fact")])
        with ip.under(op == 1):
            ip.call("AlphaMemoryIndex::create_index", [am, flds])
        with ip.under(op == 2):
            ip.call("AlphaMemoryIndex::drop_index", [am, flds])
        for code, fn in ((3, "AlphaMemoryIndex::filter"), (4, "AlphaMemoryIndex::filter_tracked")):
            with ip.under(op == code):
                r = ip.deref(ip.call(fn, [am, flds, qv]))
                want = []
                for j, fc in enumerate(facts):
                    m = False
                    for fx, fname in enumerate(FIELDS):
                        m = bor(m, band(fldi == fx, fc["has"][fname], matches(vals, fc["vi"][fname], qi, EQ)))
                    want.append(band(fc["ins"], m))
                n = r.n if not isinstance(r.n, int) else z3.IntVal(r.n)
                h.require(n == count(want), "C16: the number of facts returned by the alpha filter differs from the plain computation (fact.get(field) == Some(value))")
                got = [False] * len(facts)
                for p, el in enumerate(r.items):
                    inb = n > p
                    if inb is False:
                        continue
                    with ip.under(inb):
                        g = ip.deref(ip.call("TypedFacts::get", [el, S("id")]))
                        if not g.pl.get(1):
                            continue
                        vv = ip.deref(g.pl[1][0])
                        if not vv.pl.get(fi["Integer"]):
                            continue
                        idv = vv.pl[fi["Integer"]][0]
                        for j in range(len(facts)):
                            got[j] = bor(got[j], band(inb, ip.eq(idv, I(j, "i64"))))
                for j in range(len(facts)):
                    h.require(zbool(got[j]) == zbool(want[j]), "C16: the alpha filter returns a different set of facts than the plain computation (fact.get(field) == Some(value))")
                saw_nonempty = bor(saw_nonempty, band(op == code, n > 0))
        for fx, fname in enumerate(FIELDS):
            saw_indexed_filter = bor(saw_indexed_filter, band(bor(op == 3, op == 4), fldi == fx, indexed[fname]))
            saw_insert_after_index = bor(saw_insert_after_index, band(op == 0, indexed[fname]))
            indexed[fname] = mi(band(op == 1, fldi == fx), True, mi(band(op == 2, fldi == fx), False, indexed[fname]))
        facts.append({"ins": op == 0, "has": {"f": has_f, "g": has_g}, "vi": {"f": qi, "g": gi}})
    h.cover(saw_indexed_filter, "a filter ran on an indexed field")
    h.cover(saw_insert_after_index, "a fact was inserted while an index existed")
    h.cover(saw_nonempty, "a filter returned a fact")


def mi(c, a, b):
    return ite(c, a, b)


# ----------------------------------------------------------------------------------------------------------------- beta
def run_beta(h, K, vals):
    ip = h.ip
    texts = [debug_text(v) for v in vals]
    SAME = [[texts[a] == texts[b] for b in range(len(vals))] for a in range(len(vals))]
    h.let("bi", h.call("BetaMemoryIndex::new", [S("k")]))
    bi = h.ref("bi")
    NF = 3                        # fact numbers 0..2, each with a fixed (symbolic) join-key value for the whole history
    fv, present = [], []
    for j in range(NF):
        has = h.bool("fact%d_has_key" % j)
        vi_, vv = pick_val(h, "fact%d_key" % j, vals)
        h.let("bf%d" % j, h.call("TypedFacts::new", []))
        with ip.under(has):
            ip.call("TypedFacts::set", [h.ref("bf%d" % j), S("k"), vv])
        fv.append((has, vi_))
        present.append(z3.IntVal(0))      # multiplicity of fact j in the index
    saw_hit = False
    saw_remove = False
    for step in range(K):
        h.tag = "step%d" % step
        op = h.int("op%d" % step, 0, 2).v            # add | remove | lookup
        j = h.int("fact%d" % step, 0, NF - 1).v
        qi = h.int("lookup%d" % step, 0, len(vals) - 1).v
        key = S(texts[-1])
        for a in range(len(vals) - 2, -1, -1):
            key = ite(qi == a, S(texts[a]), key)
        for x in range(NF):
            # add is only issued for a fact that is not in the index (a beta memory holds each token once)
            h.assume(z3.Implies(z3.And(op == 0, j == x), present[x] == 0))
            with ip.under(band(op == 0, j == x)):
                ip.call("BetaMemoryIndex::add", [bi, h.ref("bf%d" % x), I(x, "usize")])
            with ip.under(band(op == 1, j == x)):
                ip.call("BetaMemoryIndex::remove", [bi, h.ref("bf%d" % x), I(x, "usize")])
            present[x] = z3.If(z3.And(op == 0, j == x, zbool(fv[x][0])), 1, z3.If(z3.And(op == 1, j == x), 0, present[x]))
        saw_remove = bor(saw_remove, band(op == 1, bor(*[band(j == x, present[x] == 0) for x in range(NF)])))
        with ip.under(op == 2):
            r = ip.deref(ip.call("BetaMemoryIndex::lookup", [bi, key]))
            want = [band(present[x] == 1, fv[x][0], matches(vals, fv[x][1], qi, SAME)) for x in range(NF)]
            n = r.n if not isinstance(r.n, int) else z3.IntVal(r.n)
            h.require(n == count(want), "C16: the join-key lookup returns a different number of facts than the live facts carrying that key")
            got = [False] * NF
            for p, el in enumerate(r.items):
                inb = n > p
                if inb is False:
                    continue
                e = ip.deref(el)
                for x in range(NF):
                    got[x] = bor(got[x], band(inb, ip.eq(e, I(x, "usize"))))
            for x in range(NF):
                h.require(zbool(got[x]) == zbool(want[x]), "C16: the join-key lookup returns a different set than the live facts carrying that key")
            saw_hit = bor(saw_hit, band(op == 2, n > 0))
    h.cover(saw_hit, "a lookup returned a fact")
    h.cover(saw_remove, "a fact was removed from the index")


# ---------------------------------------------------------------------------------------------------------------- concl
CFIELDS = ["a", "a.x", "a.y", "ab.x", "b"]
RNAMES = ["r0", "r1", "r2"]


def run_concl(h, K):
    ip = h.ip
    ip.split_fns = {"*"}
    vi = {n: i for i, (n, _) in enumerate(ip.enums["Value"])}
    oi = {n: i for i, (n, _) in enumerate(ip.enums["Operator"])}
    ai = {n: i for i, (n, _) in enumerate(ip.enums["ActionType"])}
    vtrue = En("Value", vi["Boolean"], {vi["Boolean"]: [True]})
    h.let("ci", h.call("ConclusionIndex::new", []))
    ci = h.ref("ci")
    # reference: per rule name the conclusions of its most recent successful add (None = not indexed)
    ref = {r: {"in": False, "f1": z3.IntVal(0), "two": False, "f2": z3.IntVal(0)} for r in RNAMES}
    saw_hit = False
    saw_removed = False
    saw_readd = False
    for step in range(K):
        h.tag = "step%d" % step
        op = h.int("op%d" % step, 0, 2).v          # add_rule | remove_rule | find_candidates
        ri, rs = pick(h, "rule%d" % step, RNAMES)
        f1i, f1s = pick(h, "field1_%d" % step, CFIELDS)
        f2i, f2s = pick(h, "field2_%d" % step, CFIELDS)
        two = h.bool("two%d" % step)
        enabled = h.bool("enabled%d" % step)
        witheq = h.bool("goal_with_operator%d" % step)
        a1 = En("ActionType", ai["Set"], {ai["Set"]: {"field": f1s, "value": vtrue}})
        a2 = En("ActionType", ai["Set"], {ai["Set"]: {"field": f2s, "value": vtrue}})
        cond = h.call("ConditionGroup::single", [h.call("Condition::new", [S("p"), En("Operator", oi["Equal"], {}), vtrue])])
        rule = h.call("Rule::new", [rs, cond, ite(two, Vc([a1, a2]), Vc([a1]))])
        rule = St(rule.name, dict(rule.f, enabled=enabled))
        h.let("rule", rule)
        # re-adding a name that is already indexed is part of the histories: the rule the property speaks about is then
        # the most recently added version (a disabled re-add leaves no obligation for that name)
        with ip.under(op == 0):
            ip.call("ConclusionIndex::add_rule", [ci, h.ref("rule")])
        with ip.under(op == 1):
            ip.call("ConclusionIndex::remove_rule", [ci, rs])
        for x, r in enumerate(RNAMES):
            e = ref[r]
            addp = band(op == 0, ri == x, enabled)
            rem = bor(band(op == 1, ri == x), band(op == 0, ri == x, bnot(enabled)))
            saw_removed = bor(saw_removed, band(op == 1, ri == x, e["in"]))
            saw_readd = bor(saw_readd, band(addp, e["in"]))
            ref[r] = {"in": mi(addp, True, mi(rem, False, e["in"])), "f1": z3.If(zbool(addp), f1i, e["f1"]),
                      "two": mi(addp, two, e["two"]), "f2": z3.If(zbool(addp), f2i, e["f2"])}
        goal = S(CFIELDS[-1])
        for a in range(len(CFIELDS) - 1, -1, -1):
            g_ = ite(witheq, S(CFIELDS[a] + " == true"), S(CFIELDS[a]))
            goal = g_ if a == len(CFIELDS) - 1 else ite(f1i == a, g_, goal)
        with ip.under(op == 2):
            r = ip.deref(ip.call("ConclusionIndex::find_candidates", [ci, goal]))
            for x, rn in enumerate(RNAMES):
                e = ref[rn]
                assigns = band(e["in"], bor(e["f1"] == f1i, band(e["two"], e["f2"] == f1i)))
                has = h.ip.bi.set_contains(r, S(rn)) if hasattr(h.ip.bi, "set_contains") else None
                if has is None:
                    raise Unsupported("no set_contains in the library model")
                h.require(bor(bnot(assigns), has), "C16: find_candidates does not propose an indexed enabled rule that assigns the goal's field")
                saw_hit = bor(saw_hit, band(op == 2, assigns))
    h.cover(saw_hit, "a goal had a rule assigning its field")
    h.cover(saw_removed, "an indexed rule was removed")
    h.cover(saw_readd, "an indexed rule name was added again")


SMALL = [0, 3, 4, 5, 6, 14]       # Integer 1, Float 0.0 / -0.0 / NaN, String "1", Array [Float 0.0]


TINY = [0, 3, 4, 5]                     # Integer 1, Float 0.0 / -0.0 / NaN


def run(mode, K, vals="full", witness=False):
    # two structs are called IndexStats (alpha index / conclusion index): each mode loads only its own unit
    files = {"alpha": ["errors.rs", "types.rs", "rete/facts.rs", "rete/alpha_memory_index.rs"],
             "beta": ["errors.rs", "types.rs", "rete/facts.rs", "rete/optimization.rs"],
             "concl": ["errors.rs", "types.rs", "engine/rule.rs", "backward/conclusion_index.rs"]}[mode]
    h = Harness(files, cap=max(8, K + 3), loop_bound=max(8, K + 3), rec_bound=4)
    h.ip.debug_faithful = {"FactValue"}
    vals = VALS if vals == "full" else [VALS[i] for i in (SMALL if vals == "small" else TINY)]
    res_vals = vals
    if mode == "alpha":
        run_alpha(h, K, vals)
    elif mode == "beta":
        run_beta(h, K, vals)
    else:
        run_concl(h, K)
    if witness:
        h.require(False, "C16 witness")
    res = h.decide()
    res["bounds"] = {"mode": mode, "operations": K, "candidate_values": len(vals)}
    res["harness"] = h
    res["K"], res["mode"], res["vals"] = K, mode, res_vals
    return res


def decode(res, m):
    K, mode = res["K"], res["mode"]
    VALS = res["vals"]
    out = [{"mode": mode}]
    if mode == "alpha":
        names = ["insert", "create_index", "drop_index", "filter", "filter_tracked"]
        for s in range(K):
            op = m["op%d" % s]
            o = {"op": names[op]}
            if op == 0:
                o["id"] = s
                if m["has_f%d" % s]:
                    o["f"] = _j(VALS[m["value%d" % s]])
                if m["has_g%d" % s]:
                    o["g"] = _j(VALS[m["gvalue%d" % s]])
            else:
                o["field"] = FIELDS[m["field%d" % s]]
                if op >= 3:
                    o["value"] = _j(VALS[m["value%d" % s]])
            out.append(o)
    elif mode == "beta":
        out[0]["facts"] = [({"k": _j(VALS[m["fact%d_key" % j]])} if m["fact%d_has_key" % j] else {}) for j in range(3)]
        for s in range(K):
            op = m["op%d" % s]
            o = {"op": ["add", "remove", "lookup"][op]}
            if op <= 1:
                o["fact"] = m["fact%d" % s]
            else:
                o["key"] = debug_text(VALS[m["lookup%d" % s]])
            out.append(o)
    else:
        for s in range(K):
            op = m["op%d" % s]
            o = {"op": ["add_rule", "remove_rule", "find_candidates"][op]}
            if op == 0:
                o.update({"rule": RNAMES[m["rule%d" % s]], "enabled": m["enabled%d" % s],
                          "sets": [CFIELDS[m["field1_%d" % s]]] + ([CFIELDS[m["field2_%d" % s]]] if m["two%d" % s] else [])})
            elif op == 1:
                o["rule"] = RNAMES[m["rule%d" % s]]
            else:
                o["goal"] = CFIELDS[m["field1_%d" % s]] + (" == true" if m["goal_with_operator%d" % s] else "")
            out.append(o)
    return out


def _is_nan(v):
    return v[0] == "Float" and v[1] != v[1] or (v[0] == "Array" and any(_is_nan(x) for x in v[1]))


def _is_zero(v):
    return v[0] == "Float" and v[1] == 0 or (v[0] == "Array" and any(_is_zero(x) for x in v[1]))


def finding_key(msg, trace):
    """role of the failure. Alpha traces are classified by the first filter on which a Debug-text-keyed index and the
    plain == computation disagree (the two roles of the defect repaired in 9dee67d); anything else is `other`"""
    mode = trace[0]["mode"]
    role = "other"
    if mode == "alpha":
        facts, indexed = [], set()
        for o in trace[1:]:
            if o["op"] == "insert":
                facts.append({f: _tup(o[f]) for f in FIELDS if f in o})
            elif o["op"] == "create_index":
                indexed.add(o["field"])
            elif o["op"] == "drop_index":
                indexed.discard(o["field"])
            elif o["field"] in indexed:
                q = _tup(o["value"])
                plain = [i for i, f in enumerate(facts) if o["field"] in f and val_eq(f[o["field"]], q)]
                keyed = [i for i, f in enumerate(facts) if o["field"] in f and debug_text(f[o["field"]]) == debug_text(q)]
                if plain != keyed:
                    role = "nan-query" if _is_nan(q) else "signed-zero-query" if _is_zero(q) else "other"
                    break
    return "%s|%s|C16" % (mode, role)


def replay_source(trace):
    mode = trace[0]["mode"]
    ops = trace[1:]
    L = []
    if mode == "alpha":
        L.append("let mut am = AlphaMemoryIndex::new(); let mut plain: Vec<TypedFacts> = Vec::new();")
        for i, o in enumerate(ops):
            if o["op"] == "insert":
                L.append("{ let mut t = TypedFacts::new(); t.set(\"id\", FactValue::Integer(%d));" % o["id"])
                for f in FIELDS:
                    if f in o:
                        L.append('  t.set("%s", %s);' % (f, rust_val(_tup(o[f]))))
                L.append("  plain.push(t.clone()); am.insert(t); }")
            elif o["op"] == "create_index":
                L.append('am.create_index("%s".to_string());' % o["field"])
            elif o["op"] == "drop_index":
                L.append('am.drop_index("%s");' % o["field"])
            else:
                L.append('{ let v = %s; let got: Vec<i64> = ids(am.%s("%s", &v)); let want: Vec<i64> = ids(plain.iter().filter(|f| f.get("%s") == Some(&v)).collect());'
                         % (rust_val(_tup(o["value"])), o["op"], o["field"], o["field"]))
                L.append('  if got != want { bad.push(format!("step %d: %s({}, {:?}) returned ids {:?}, plain computation {:?}", "%s", v, got, want)); } }'
                         % (i, o["op"], o["field"]))
        pre = """
use rust_rule_engine::rete::alpha_memory_index::AlphaMemoryIndex;
use rust_rule_engine::rete::facts::{FactValue, TypedFacts};
fn ids(v: Vec<&TypedFacts>) -> Vec<i64> { let mut r: Vec<i64> = v.iter().map(|t| match t.get("id") { Some(FactValue::Integer(i)) => *i, _ => -1 }).collect(); r.sort(); r }
"""
    elif mode == "beta":
        L.append('let mut bi = BetaMemoryIndex::new("k".to_string()); let mut live: Vec<usize> = Vec::new(); let mut facts: Vec<TypedFacts> = Vec::new();')
        for f in trace[0]["facts"]:
            L.append("{ let mut t = TypedFacts::new(); %s facts.push(t); }" % ('t.set("k", %s);' % rust_val(_tup(f["k"])) if "k" in f else "let _ = &mut t;"))
        for i, o in enumerate(ops):
            if o["op"] == "add":
                L.append("bi.add(&facts[%d], %d); if !live.contains(&%d) { live.push(%d); }" % (o["fact"], o["fact"], o["fact"], o["fact"]))
            elif o["op"] == "remove":
                L.append("bi.remove(&facts[%d], %d); live.retain(|x| *x != %d);" % (o["fact"], o["fact"], o["fact"]))
            else:
                L.append('{ let key = %s; let mut got: Vec<usize> = bi.lookup(key).to_vec(); got.sort(); let mut want: Vec<usize> = live.iter().cloned().filter(|i| facts[*i].get("k").map(|v| format!("{:?}", v)) == Some(key.to_string())).collect(); want.sort();'
                         % _rstr(o["key"]))
                L.append('  if got != want { bad.push(format!("step %d: lookup({}) returned {:?}, live facts carrying the key {:?}", key, got, want)); } }' % i)
        pre = """
use rust_rule_engine::rete::optimization::BetaMemoryIndex;
use rust_rule_engine::rete::facts::{FactValue, TypedFacts};
"""
    else:
        L.append("let mut ci = ConclusionIndex::new(); let mut rules: Vec<(String, Vec<String>)> = Vec::new();")
        for i, o in enumerate(ops):
            if o["op"] == "add_rule":
                sets = ", ".join('"%s"' % f for f in o["sets"])
                L.append('{ let mut r = Rule::new("%s".to_string(), ConditionGroup::single(Condition::new("p".to_string(), Operator::Equal, Value::Boolean(true))), vec![%s]); r.enabled = %s;'
                         % (o["rule"], ", ".join('ActionType::Set { field: "%s".to_string(), value: Value::Boolean(true) }' % f for f in o["sets"]), str(o["enabled"]).lower()))
                L.append('  ci.add_rule(&r); rules.retain(|(n, _)| n != "%s"); if r.enabled { rules.push(("%s".to_string(), vec![%s].into_iter().map(String::from).collect())); } }' % (o["rule"], o["rule"], sets))
            elif o["op"] == "remove_rule":
                L.append('ci.remove_rule("%s"); rules.retain(|(n, _)| n != "%s");' % (o["rule"], o["rule"]))
            else:
                fld = o["goal"].split(" ")[0]
                L.append('{ let got = ci.find_candidates("%s"); for (n, sets) in &rules { if sets.iter().any(|f| f == "%s") && !got.contains(n) { bad.push(format!("step %d: find_candidates({}) = {:?} misses rule {} which sets the field", "%s", got, n)); } } }'
                         % (o["goal"], fld, i, o["goal"]))
        pre = """
use rust_rule_engine::backward::conclusion_index::ConclusionIndex;
use rust_rule_engine::engine::rule::{Condition, ConditionGroup, Rule};
use rust_rule_engine::types::{ActionType, Operator, Value};
"""
    return pre + """
#[allow(unused_mut)]
fn main() {
    let mut bad: Vec<String> = Vec::new();
    %s
    if bad.is_empty() { println!("NOT-REPRODUCED"); } else { println!("REPRODUCED: {:?}", bad); }
}
""" % "\n    ".join(L)


def _tup(v):
    """decoded (JSON-safe) value -> candidate tuple"""
    v = tuple(v)
    if v[0] == "Array":
        return ("Array", [_tup(x) for x in v[1]])
    if v[0] == "Float" and v[1] == "NaN":
        return ("Float", NAN)
    return v


def _j(v):
    """candidate tuple -> JSON-safe form (NaN is not valid JSON)"""
    if v[0] == "Array":
        return ["Array", [_j(x) for x in v[1]]]
    if v[0] == "Float" and v[1] != v[1]:
        return ["Float", "NaN"]
    return list(v)


def _rstr(s):
    return '"%s"' % s.replace("\\", "\\\\").replace('"', '\\"')


if __name__ == "__main__":
    import sys
    r = run(sys.argv[1], int(sys.argv[2]))
    print(r["status"], r["covers"], r["inconclusive"][:5], "wall", r["wall_s"], "decide", r["decide_wall_s"])
    for msg, m in r["violations"]:
        tr = decode(r, m)
        print("VIOLATION", msg, tr, finding_key(msg, tr))
