#!/bin/bash
# seed_run.sh <ID> <patch> [tier] — run a check against a seeded change.
# The change is applied in a throw-away worktree of /repo (VERIF_REPO points the check at it), so
# /repo itself is never modified and several seeds can be tried while other work goes on.
# Evidence and replays of such runs go to a scratch directory, never to /verif/evidence.
id=$1; patch=$2; tier=${3:-quick}
wt=/var/tmp/seedrepo-$$
git -C /repo worktree add -q --detach $wt HEAD || exit 2
( cd $wt && git apply $patch ) || { echo "cannot apply $patch"; git -C /repo worktree remove --force $wt; exit 2; }
out=/var/tmp/seedout-$$; mkdir -p $out
cd /verif && VERIF_REPO=$wt VERIF_SCRATCH=/var/tmp/verif-seed-$$ VERIF_OUT_DIR=$out ./bin/check $id --tier $tier > $out/log 2>&1; rc=$?
git -C /repo worktree remove --force $wt
echo "SEEDRUN $id $(basename $patch) tier=$tier rc=$rc $(grep -c '^VIOLATION' $out/log) violation lines; $(grep -E '^  C[0-9]+:' $out/log | sort | uniq -c | head -3 | tr '\n' ';')"
grep -E "^INCONCLUSIVE" $out/log | head -3 | cut -c1-300
tail -1 $out/log; rm -rf $out
