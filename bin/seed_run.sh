#!/bin/bash
# seed_run.sh <ID> <patch> [tier]  — apply a seeded change to /repo, run the check, undo it straight afterwards
id=$1; patch=$2; tier=${3:-quick}
cd /repo && git apply $patch || { echo "cannot apply $patch"; exit 2; }
cd /verif && ./bin/check $id --tier $tier > /var/tmp/seedrun_$$.log 2>&1; rc=$?
git -C /repo checkout -- .
echo "SEEDRUN $id $(basename $patch) tier=$tier rc=$rc $(grep -c '^VIOLATION' /var/tmp/seedrun_$$.log) violation lines; $(grep -E '^  C[0-9]+:' /var/tmp/seedrun_$$.log | sort | uniq -c | head -3 | tr '\n' ';')"
tail -1 /var/tmp/seedrun_$$.log; rm -f /var/tmp/seedrun_$$.log
