#!/usr/bin/env python3
"""keep_seed.py <PID> <n> <worktree> <features> <needs...>  — store a confirmed seeded change under /verif/seeded/"""
import json, os, shutil, sys
pid, n, wt, feats = sys.argv[1], sys.argv[2], sys.argv[3], sys.argv[4]
extra = json.loads(sys.argv[5]) if len(sys.argv) > 5 else {}
d = "/verif/seeded/%s-%s" % (pid, n)
os.makedirs(d, exist_ok=True)
shutil.copy("%s/seed%s_%s.patch" % (wt, pid, n), d + "/patch.diff")
shutil.copy("%s/demo%s_%s.rs" % (wt, pid, n), d + "/demo.rs")
meta = {"property": pid, "features": feats, "source": "independent sub-agent (given only the property text and a scratch worktree)"}
meta.update(extra)
json.dump(meta, open(d + "/meta.json", "w"), indent=1)
print("kept", d)
