#!/usr/bin/env python3
"""Regenerate MANIFEST.json from the table below (kept in one place so it stays valid)."""
import json
import os

VERIF = os.path.dirname(os.path.dirname(os.path.abspath(__file__)))
BASELINE = json.load(open("/root/.vp/BASELINE.json"))["cmd"] if os.path.exists("/root/.vp/BASELINE.json") else "cd /repo && cargo test --workspace --offline"

CLAIMED = {}
NA = {}
exec(open(os.path.join(VERIF, "bin", "manifest_table.py")).read())

checks = []
for pid in sorted(CLAIMED):
    c = CLAIMED[pid]
    checks.append({
        "property_id": pid,
        "quick_cmd": "./bin/check %s --tier quick" % pid,
        "thorough_cmd": "./bin/check %s --tier thorough" % pid,
        "evidence_file": "/verif/evidence/%s.json" % pid,
        "replay_cmd_template": "cat {path}",
        "engine": "rsym",
        "level_claimed": {"category": "model_checking", "text": c["text"], "design_ref": c.get("design_ref", "DESIGN.md section 4")},
        "level_note": c["note"],
        "technique": c.get("technique", "bounded symbolic execution of the real Rust source (syn AST, predicated interpreter) + z3 SMT queries; counterexamples replayed natively"),
    })
m = {
    "version": 1,
    "setup_cmd": "./bin/setup.sh",
    "hooks": {"guard": "ksd_co_rust_rule_engine_verif", "enable": "none needed: checks read /repo/src directly; clocks are modelled inside the interpreter",
              "baseline_off_cmd": BASELINE, "source_commits": [], "add_only": True},
    "engines": [
        {"name": "rsym", "path": "/verif/rsym", "serves_properties": sorted(CLAIMED),
         "kind_free_text": "symbolic interpreter for the Rust subset used by the units (program = syn AST of /repo/src regenerated per run), z3 decides every obligation"},
    ],
    "checks": checks,
    "not_applicable": [{"property_id": p, "reason": NA[p]} for p in sorted(NA)],
    "notes": "Exit codes: 0 held within stated bounds, 1 VIOLATION (natively reproduced), 2 inconclusive (never reported as success).",
}
json.dump(m, open(os.path.join(VERIF, "MANIFEST.json"), "w"), indent=1)
print("MANIFEST.json: %d checks, %d not applicable" % (len(checks), len(NA)))
