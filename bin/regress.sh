#!/bin/bash
# regression suite for the framework itself: interpreter self-tests (the repo's own unit tests through rsym) + every quick check
cd "$(dirname "$0")/.."; export RS2AST=$PWD/.cache/rs2ast/release/rs2ast
D="/repo/src/errors.rs /repo/src/types.rs /repo/src/streaming/event.rs /repo/src/rete/facts.rs /repo/src/rete/working_memory.rs /repo/src/engine/rule.rs"
for f in backward/proof_graph.rs engine/facts.rs rete/tms.rs rete/agenda.rs engine/module.rs streaming/watermark.rs streaming/window.rs rete/working_memory.rs rete/alpha_memory_index.rs backward/conclusion_index.rs; do python3-vt rsym/selftest.py /repo/src/$f $D 2>&1 | tail -1; done
for p in $(python3 -c "import json;print(' '.join(c['property_id'] for c in json.load(open('MANIFEST.json'))['checks']))"); do ./bin/check $p --tier ${1:-quick} 2>&1 | tail -1; done
