#!/bin/bash
# confirm_seed.sh <worktree> <patch> <demo.rs> [cargo feature flags...]
# Confirms in the scratch worktree: patch applies + compiles, existing suite passes with it,
# the demo fails with the patch and passes without it. Prints one summary line.
wt=$1; patch=$2; demo=$3; shift 3
export CARGO_NET_OFFLINE=true CARGO_TARGET_DIR=$wt/target
cd $wt || exit 2
git checkout -q -- . ; name=$(basename $demo .rs | tr 'A-Z' 'a-z')
git apply $patch || { echo "SEED $patch: does not apply"; exit 1; }
suite=$(cargo test --offline --workspace 2>&1 | grep -E "^test result" | awk '{f+=$6} END{print (NR>0 && f==0)?"pass":"FAIL"}')
cp $demo tests/$name.rs
with=$(cargo test --offline "$@" --test $name 2>&1 | grep -E "^test result" | awk '{f+=$6} END{print (NR>0 && f==0)?"pass":"fail"}')
git checkout -q -- .
without=$(cargo test --offline "$@" --test $name 2>&1 | grep -E "^test result" | awk '{f+=$6} END{print (NR>0 && f==0)?"pass":"fail"}')
rm -f tests/$name.rs
echo "SEED $(basename $patch): suite_with_patch=$suite demo_with_patch=$with demo_without_patch=$without"
