#!/bin/bash
# Build the framework from files on disk only (offline). Idempotent.
set -e
cd "$(dirname "$0")/.."
export CARGO_NET_OFFLINE=true
mkdir -p .cache evidence replays
( cd rsym/rs2ast && cargo build --release --offline --target-dir ../../.cache/rs2ast ) 2>&1 | tail -3
test -x .cache/rs2ast/release/rs2ast
python3-vt -c "import z3; print('z3', z3.get_version_string())"
echo "setup ok"
