#!/usr/bin/env python3
"""Regenerate a verification crate from /repo's *working tree* (DESIGN.md 3.1).

Library: build_crate(spec, outdir) ; CLI: extract.py <spec.json|check-id> <outdir>

spec keys
  units      : list of files relative to /repo/src, or "ALL" (whole crate, lib.rs kept)
  features   : cargo features switched on in the generated crate
  shadow_seq : files whose Vec/VecDeque/BinaryHeap/vec! become the inline models (vseq)
  boxed_map  : files whose HashMap is the boxed flavour (recursive types)
  inject     : {harness file under /verif/harness: unit file it becomes a child module of}
  require    : {unit file: [regexes that must still match]}  -> "extraction drift" (exit 2)
  reexport   : {dir ("" = root): [module names re-exported with `pub use m::*`]}
  std_containers : true = no container rewrite (native replay against std containers)
  keep_tests : keep `#[cfg(test)]` modules (native model validation)

Every file is copied unmodified except for the mechanical rewrites above; its
sha256 (before rewriting) is recorded in sources.sha256.json.
"""
import hashlib
import json
import os
import re
import shutil
import sys

REPO = os.environ.get("VERIF_REPO", "/repo")
VERIF = os.path.dirname(os.path.dirname(os.path.abspath(__file__)))
HDIR = os.path.join(VERIF, "harness")


class Drift(Exception):
    pass


USE_BRACE = re.compile(r"use\s+std::collections::\{([^}]*)\}\s*;")
USE_ONE = re.compile(r"use\s+std::collections::(HashMap|HashSet)\s*;")
USE_HM_MOD = re.compile(r"use\s+std::collections::hash_map::")
FQ = re.compile(r"\bstd::collections::(HashMap|HashSet)\b")
FQ_MOD = re.compile(r"\bstd::collections::hash_map::")


def rewrite_collections(text):
    def brace(m):
        names = [n.strip() for n in m.group(1).split(",") if n.strip()]
        mine = [n for n in names if n in ("HashMap", "HashSet")]
        rest = [n for n in names if n not in ("HashMap", "HashSet")]
        out = []
        if rest:
            out.append("use std::collections::{" + ", ".join(rest) + "};")
        if mine:
            out.append("use crate::vshim::{" + ", ".join(mine) + "};")
        return " ".join(out)

    text = USE_BRACE.sub(brace, text)
    text = USE_ONE.sub(lambda m: "use crate::vshim::%s;" % m.group(1), text)
    text = USE_HM_MOD.sub("use crate::vshim::hash_map::", text)
    text = FQ.sub(lambda m: "crate::vshim::%s" % m.group(1), text)
    text = FQ_MOD.sub("crate::vshim::hash_map::", text)
    return text


SEQ_NAMES = ("Vec", "VecDeque", "BinaryHeap")
SEQ_ONE = re.compile(r"use\s+std::collections::(VecDeque|BinaryHeap)\s*;\n?")
FIRST_ITEM = re.compile(
    r"^(use |pub use |pub mod |mod |#\[|pub |fn |struct |enum |impl |const |static |type |trait |macro_rules)", re.M
)


def shadow_seq(text):
    """`Vec`, `VecDeque`, `BinaryHeap`, `vec!` of this file -> inline models (crate::vseq)."""

    def brace(m):
        names = [n.strip() for n in m.group(1).split(",") if n.strip()]
        rest = [n for n in names if n not in SEQ_NAMES]
        return ("use std::collections::{" + ", ".join(rest) + "};") if rest else ""

    text = USE_BRACE.sub(brace, text)
    text = SEQ_ONE.sub("", text)
    text = re.sub(r"\bstd::collections::(VecDeque|BinaryHeap)\b", r"crate::vseq::\1", text)
    text = re.sub(r"\bstd::vec::Vec\b", "crate::vseq::Vec", text)
    m = FIRST_ITEM.search(text)
    if not m:
        raise Drift("cannot find an item to attach the vseq imports to")
    ins = (
        "#[allow(unused_imports)]\nuse crate::vseq::{BinaryHeap, Vec, VecDeque};\n"
        "#[allow(unused_imports)]\nuse crate::vseq_vec as vec;\n"
    )
    text = text[: m.start()] + ins + text[m.start():]
    # glob imports of the parent do not beat the macro_use prelude: re-import explicitly
    return text.replace(
        "use super::*;", "use super::*;\n    #[allow(unused_imports)]\n    use crate::vseq_vec as vec;"
    )


def boxed_map(text):
    text = text.replace("use crate::vshim::HashMap;", "use crate::vshim::HashMapB as HashMap;")
    return text.replace("crate::vshim::HashMap<", "crate::vshim::HashMapB<")


TEST_MOD = re.compile(r"\n#\[cfg\(test\)\]\s*\nmod\s+\w+\s*\{")


def strip_tests(text):
    """remove trailing `#[cfg(test)] mod x { ... }` blocks (brace matched)"""
    while True:
        m = TEST_MOD.search(text)
        if not m:
            return text
        i = m.end()
        depth = 1
        while i < len(text) and depth:
            c = text[i]
            if c == "{":
                depth += 1
            elif c == "}":
                depth -= 1
            i += 1
        text = text[: m.start()] + "\n" + text[i:]


def cargo_toml(features, whole):
    src = open(os.path.join(REPO, "Cargo.toml")).read()
    blocks = re.split(r"\n(?=\[)", src)
    byname = {b.split("\n", 1)[0].strip(): b for b in blocks}
    for need in ("[package]", "[dependencies]", "[features]"):
        if need not in byname:
            raise Drift("Cargo.toml: no %s section" % need)
    if whole:
        s = "\n".join(byname[k] for k in ("[package]", "[dependencies]", "[features]"))
        s = s.replace(
            "[package]\n",
            "[package]\nautobins = false\nautoexamples = false\nautotests = false\nautobenches = false\n",
            1,
        )
        s = re.sub(r"exclude = \[[^\]]*\]\n", "", s)
        s = re.sub(r'readme = "[^"]*"\n', "", s)
        s += '\n[dev-dependencies]\ntokio = { version = "1", features = ["full"] }\nserde_yaml = "0.9"\n'
    else:
        deps = byname["[dependencies]"]

        def dep(name):
            m = re.search(r"^%s\s*=.*$" % re.escape(name), deps, re.M)
            if not m:
                raise Drift("Cargo.toml: dependency %s disappeared" % name)
            return m.group(0)

        s = '[package]\nname = "rre-units"\nversion = "0.0.0"\nedition = "2021"\n\n[dependencies]\n'
        s += "\n".join(dep(n) for n in ("serde", "serde_json", "thiserror", "chrono")) + "\n"
        s += "\n[features]\ndefault = []\nstreaming = []\nbackward-chaining = []\n"
    s += '\n[lib]\npath = "src/lib.rs"\n\n[workspace]\n'
    s += '\n[lints.rust]\nunexpected_cfgs = { level = "allow" }\n'
    s += "\n[profile.dev]\ndebug = 0\n"
    return s


def glue(units, reexport):
    """lib.rs for a unit-closure crate: the module tree of exactly the copied files."""
    tree = {}
    for u in units:
        parts = u[:-3].split("/")
        d = tree
        for p in parts[:-1]:
            d = d.setdefault(p, {})
        d[parts[-1]] = None

    def emit(d, path, ind):
        out = []
        for name in sorted(d):
            sub = d[name]
            if sub is None:
                out.append("%spub mod %s;" % (ind, name))
            else:
                out.append("%spub mod %s {" % (ind, name))
                out += emit(sub, path + [name], ind + "    ")
                out.append("%s}" % ind)
        for m in reexport.get("/".join(path), []):
            if m in d:
                out.append("%spub use self::%s::*;" % (ind, m))
        return out

    lines = ["#![allow(warnings)]"] + emit(tree, [], "")
    return "\n".join(lines) + "\n"


DEFAULT_REEXPORT = {
    "": ["errors", "types"],
    "rete": ["working_memory", "facts", "tms", "agenda"],
}


def build_crate(spec, out):
    units = spec.get("units", "ALL")
    whole = units == "ALL"
    std_containers = spec.get("std_containers", False)
    shadow = spec.get("shadow_seq", [])
    boxed = spec.get("boxed_map", [])
    if os.path.exists(out):
        shutil.rmtree(out)
    os.makedirs(os.path.join(out, "src"))
    srcroot = os.path.join(REPO, "src")
    if not os.path.isdir(srcroot):
        raise Drift("no src directory in " + REPO)
    if whole:
        files = []
        for root, _, fs in os.walk(srcroot):
            for f in fs:
                if f.endswith(".rs"):
                    files.append(os.path.relpath(os.path.join(root, f), srcroot))
    else:
        files = list(units)
    for rel, pats in spec.get("require", {}).items():
        p = os.path.join(srcroot, rel)
        if not os.path.exists(p):
            raise Drift("missing file src/" + rel)
        t = open(p).read()
        for pat in pats:
            if not re.search(pat, t):
                raise Drift("src/%s no longer contains /%s/" % (rel, pat))
    manifest = {}
    for rel in files:
        p = os.path.join(srcroot, rel)
        if not os.path.exists(p):
            raise Drift("missing file src/" + rel)
        text = open(p).read()
        manifest[rel] = hashlib.sha256(text.encode()).hexdigest()
        if not spec.get("keep_tests", False) and not whole:
            text = strip_tests(text)
        if not std_containers:
            text = rewrite_collections(text)
            if rel in boxed:
                text = boxed_map(text)
            if rel in shadow:
                text = shadow_seq(text)
        dst = os.path.join(out, "src", rel)
        os.makedirs(os.path.dirname(dst), exist_ok=True)
        open(dst, "w").write(text)
    for rel in list(shadow) + list(boxed):
        if rel not in manifest:
            raise Drift("missing file src/" + rel)
    shutil.copy(os.path.join(REPO, "Cargo.lock"), os.path.join(out, "Cargo.lock"))
    open(os.path.join(out, "Cargo.toml"), "w").write(cargo_toml(spec.get("features", []), whole))

    for f in ("vshim.rs", "vseq.rs", "vstubs.rs"):
        shutil.copy(os.path.join(HDIR, f), os.path.join(out, "src", f))
    lib = os.path.join(out, "src", "lib.rs")
    if not whole:
        open(lib, "w").write(glue(files, spec.get("reexport", DEFAULT_REEXPORT)))
    with open(lib, "a") as fh:
        fh.write(
            "\n#[allow(warnings)]\npub mod vshim;\n#[allow(warnings)]\npub mod vseq;\n"
            "#[cfg(kani)]\n#[allow(warnings)]\npub mod vstubs;\n"
        )
    for hfile, target in spec.get("inject", {}).items():
        hpath = os.path.join(HDIR, hfile)
        if not os.path.exists(hpath):
            raise Drift("harness file missing: " + hpath)
        tpath = os.path.join(out, "src", target)
        if not os.path.exists(tpath):
            raise Drift("missing file src/" + target)
        name = "vp_" + os.path.splitext(os.path.basename(hfile))[0]
        dst = os.path.join(out, "harness_" + os.path.basename(hfile))
        shutil.copy(hpath, dst)
        with open(tpath, "a") as fh:
            fh.write('\n#[cfg(kani)]\n#[allow(warnings)]\n#[path = "%s"]\nmod %s;\n' % (dst, name))
    json.dump(manifest, open(os.path.join(out, "sources.sha256.json"), "w"), indent=0, sort_keys=True)
    return manifest


def main():
    if len(sys.argv) < 3:
        print(__doc__)
        sys.exit(2)
    spec = json.load(open(sys.argv[1]))
    try:
        m = build_crate(spec, sys.argv[2])
    except Drift as e:
        print("extraction drift: %s" % e)
        sys.exit(2)
    print("extracted %d files into %s" % (len(m), sys.argv[2]))


if __name__ == "__main__":
    main()
