CLAIMED["C08"] = {
    "text": "Bounded symbolic model checking of the real TruthMaintenanceSystem: every history of K operations over N handles (quick 4x4, thorough 4x5 and 5x4) is covered by SMT queries against an independent support-fixpoint model; a violation comes with a concrete history replayed against the real crate.",
    "note": "TMS level only (engine-level application of cascades outside). Trusted: rsym interpreter + container model (validated on the repo's own unit tests), z3, reference model. Bounded: longer histories are outside the claim.",
}
for p in ["C01","C02","C03","C04","C05","C06","C07","C09","C10","C11","C12","C13","C14","C15","C16","C17","C18","C19","C20"]:
    NA[p] = "check not yet built in this revision (see DESIGN.md)"
