CLAIMED["C08"] = {
    "text": "Bounded symbolic model checking of the real TruthMaintenanceSystem: every history of K operations over N handles (quick 4x4, thorough 4x5 and 5x4) is covered by SMT queries against an independent support-fixpoint model; a violation comes with a concrete history replayed against the real crate.",
    "note": "TMS level only (engine-level application of cascades outside). Trusted: rsym interpreter + container model (validated on the repo's own unit tests), z3, reference model. Bounded: longer histories are outside the claim.",
}
for p in ["C01","C02","C03","C04","C05","C06","C07","C09","C10","C11","C12","C13","C14","C15","C16","C17","C18","C19","C20"]:
    NA[p] = "check not yet built in this revision (see DESIGN.md)"
CLAIMED["C13"] = {
    "text": "Bounded symbolic model checking of the real WatermarkedStream/WatermarkGenerator/LateDataHandler: K events (quick 5, thorough 8 and 12) with ANY u64 timestamps in any order, symbolic watermark strategy (bounded out-of-order with any delay, monotonic, periodic under an arbitrary non-decreasing clock) and symbolic late-data strategy; monotonicity, the max_seen-delay formula, lateness test, exactly-once accounting and statistics are SMT obligations against an independent model.",
    "note": "Trusted: rsym interpreter + library model (validated on the repo's unit tests), z3, reference model. Bounded in the number of events; payloads empty.",
}
CLAIMED["C12"] = {
    "text": "Bounded symbolic model checking of TimeWindow::record (sliding contents vs. reference, symbolic duration and retention cap, any arrival order), WindowManager::process_event and WindowedStream::new (tumbling: each event in exactly one aligned window, concrete window lengths) and the window aggregates (count/sum/average/min/max vs. an independent fold over candidate values).",
    "note": "Timestamps below 2^62; tumbling window lengths concrete per run; aggregates over candidate value sets; StreamAlphaNode and sliding WindowedStream construction outside. Trusted: rsym + library model, z3, reference models.",
}
for _p in ("C12", "C13"):
    NA.pop(_p, None)
CLAIMED["C17"] = {
    "text": "Bounded symbolic model checking of the real ProofGraph: every history of K insert_proof/invalidate_handle operations over N handles (quick 3x3... see TIERS), premise sets of any acyclic shape in ANY insertion order (dependents before premises included), against an independent justification-liveness fixpoint; observed through get_node(..).valid and is_proven.",
    "note": "One distinct key per handle; invalidated handles are not reused as premises (property quantifier). Trusted: rsym + library model, z3, reference model. Bounded.",
}
NA.pop("C17", None)
CLAIMED["C18"] = {
    "text": "Bounded symbolic model checking of the real ModuleManager: every history of K operations (create/delete module, add rule, set exports, import) with symbolic arguments over up to 4 module names, 3 rule names and 4 wildcard patterns; acyclicity of the declared imports among existing modules, refusal-without-effect of cycle-closing imports, and is_rule_visible (answers, and equals owns-or-imports-from-an-exporting-module) are SMT obligations.",
    "note": "Name/pattern alphabets finite (stated); re-exports/templates outside. Trusted: rsym + library model, z3, reference model. Bounded in K.",
}
NA.pop("C18", None)
CLAIMED["C07"] = {
    "text": "Bounded symbolic model checking of the real AdvancedAgenda (and the real Ord impl of Activation through the priority-queue model): every history of K operations (add_activation with ANY i32 salience and symbolic flags/groups, fire = get_next_activation + mark_rule_fired, set_focus, reset_fired_flags); obligations: the fired activation was pending, is in the focused group, is eligible, no eligible pending activation of that group has higher salience or equal salience and earlier creation, no-loop at most once between resets, at most one rule per activation group, focus only leaves a group without eligible pending activations.",
    "note": "Agenda clause only: termination of the fire_all entry points is NOT covered. BinaryHeap modelled as a priority queue (distinct creation instants => unique maximum). Trusted: rsym + library model, z3. Bounded in K.",
}
NA.pop("C07", None)
CLAIMED["C10"] = {
    "text": "Undo-frame clause only: bounded symbolic model checking of the real Facts store: every history of K operations (begin/commit/rollback/set/set of an object/set_nested/remove, symbolic keys and values) against a stack-of-snapshots reference; after every operation each key's presence, kind, value and nested field must equal the reference.",
    "note": "The failed-proof half (BackwardEngine::query leaves the facts untouched) is NOT covered. Locks transparent (single-threaded). Trusted: rsym + library model, z3, reference model. Bounded in K.",
}
NA.pop("C10", None)
CLAIMED["C15"] = {
    "text": "Sequential clause only: bounded symbolic model checking of the real KnowledgeBase: every history of K operations (add with ANY i32 salience, remove, enable/disable, clear; symbolic names) against a reference; after every operation get_rule (presence, name, most-recently-added salience, enabled flag), listing order (descending salience, insertion order among equals, each rule once), index view, names, count, duplicate rejection without effect and version growth are SMT obligations.",
    "note": "The concurrent / linearizability half is NOT covered (locks transparent, no thread model). Stable-sort model for sort_by_key/sort_by. Trusted: rsym + library model, z3, reference model. Bounded in K.",
}
NA.pop("C15", None)

NA.update({
 "C01": "the condition gate runs over Facts + expression.rs (char-level scanning, parse::<f64> of text); float parsing and char scanning over symbolic text are not modelled by rsym, and concrete text leaves nothing for the solver",
 "C02": "RustRuleEngine::execute_at_time (plugins, analytics, workflow, chrono dates, boxed action handlers) is outside the interpreter's modelled subset",
 "C03": "whole-engine loop of RustRuleEngine::execute; outside the interpreter's modelled subset",
 "C04": "the GRL parser sits behind the rexile regex engine; a regex matcher over symbolic text is out of reach and concrete text leaves nothing to decide",
 "C05": "parsers behind rexile/nom and char-level scanning over symbolic text up to 4 KiB: out of reach for symbolic execution",
 "C06": "IncrementalEngine::fire_all executes Arc<dyn Fn> actions built by the GRL loader over flattened TypedFacts; opaque to the interpreter",
 "C09": "DepthFirstSearch/BackwardEngine round-trip goals through format!/parse and boxed built-ins; not in the modelled subset",
 "C11": "same engine as C09 plus string-keyed caches of formatted queries",
 "C14": "StreamJoinNode keys its buffers by format!(\"{}_{}\", id, ts) of symbolic integers and calls boxed join conditions; free integer->string is not modelled",
 "C16": "index/memo keys are Debug renderings of FactValue (float formatting is the subject); opaque in the model",
 "C19": "thread::spawn/join schedules cannot be made symbolic in this family here (no concurrency model)",
 "C20": "file-system writes and crash points have no model in this family here",
})
for _p in list(CLAIMED):
    NA.pop(_p, None)
CLAIMED["C06"] = {
    "text": "Working-memory clause only: bounded symbolic model checking of the real WorkingMemory: every history of K operations (insert with symbolic type, update/retract of ANY handle id incl. never-issued and retracted ones, clear); after every operation lookup by handle, the per-type view, the full listing and the handle listing must equal the reference 'active' set, update/retract succeed exactly on active facts, and every inserted handle is fresh (never reused, also across clear).",
    "note": "Rule firing (IncrementalEngine::fire_all, propagation, action closures) is NOT covered. Payloads empty. Trusted: rsym + library model, z3, reference model. Bounded in K.",
}
NA.pop("C06", None)
CLAIMED["C01"] = {
    "text": "Operator-semantics clause only: the real Operator::evaluate / Value::to_number are executed symbolically with the operator symbolic over all 12 variants and both operands symbolic over candidate sets of Integer (incl. 2^53, 2^53+1, i64 extremes), Number (incl. -0.0, inf, NaN), String (incl. '', 'null', numeric and non-numeric text), Boolean, Null and an Array; plus Equal/NotEqual over ANY pair of i64. Oracle: the documented meaning (numeric coercion for ordering, structural equality with the null/'null' rule, string operators only on two strings, membership) written independently.",
    "note": "NOT covered: condition trees, missing-field-reads-as-null, field-reference right-hand sides, arithmetic expressions (z3 float theory: unknown at 600 s), assignment effects - all behind RustRuleEngine/Facts/expression.rs. Finite candidate domains. Trusted: rsym + library model (incl. the Rust float-literal grammar for parse::<f64>), z3.",
}
NA.pop("C01", None)
CLAIMED["C02"] = {
    "text": "Bounded symbolic model checking of the REAL forward engine gate (RustRuleEngine::execute_with_callback and execute_at_time, with the real KnowledgeBase, AgendaManager, ActivationGroupManager, Rule::is_active_at, Operator::evaluate, Facts): rule sets of R rules with ANY i32 salience and symbolic enabled/no-loop/lock-on-active/agenda-group/activation-group/date-window attributes, symbolic initial facts, symbolic focus and max_cycles; the firing sequence observed through the callback must equal a reference written from the property statement (descending salience, insertion order among equals, attribute gates), and the counters and final facts must equal the reference run.",
    "note": "One execute per fresh engine after an optional set_agenda_focus; rules have the shape flag_i == true / one Set action; ActivateAgendaGroup actions, workflow scheduling, repeated execute calls and focus histories are outside the claim. Trusted: rsym + library model, z3, reference model. Bounded in R and max_cycles.",
}
CLAIMED["C03"] = {
    "text": "Bounded symbolic model checking of the REAL engine loop: for every rule set of R rules of the stated shape (self-triggering and mutually triggering rules without no-loop included) and max_cycles symbolic in 0..C: execute returns Ok, every loop of the engine stays within its bound (bound obligations unsat), cycle_count <= max_cycles and equals 'passes until one fired nothing', rules_fired equals the callback count and the reference, the run stops before the bound only after a pass that fired nothing, and then no eligible rule has a true condition on the final facts.",
    "note": "max_cycles up to C (not 64), timeout disabled; same rule shape and exclusions as C02. Trusted: rsym + library model, z3, reference model.",
}
NA.pop("C02", None); NA.pop("C03", None)

CLAIMED["C01"] = {
    "text": "Two clauses. (a) Engine level: the REAL RustRuleEngine::execute_with_callback with one rule whose condition is a symbolic tree (shapes L, !L, L&L, L|L, L&(L|L), !(L&L), (L|L)&!L, !(L|(L&L)); every leaf symbolic over field in {x, y, a missing field, nested obj.n}, the six comparison operators, right-hand side an integer literal / a string naming another fact / null / a string naming nothing) over symbolic facts (present/absent, candidate integers): the callback runs and the assignment out := 7 is stored IFF the tree is true under the documented meaning (missing field reads as null, field-reference right-hand sides are read from the facts, ordering false on non-numeric operands). (b) Operator level: Operator::evaluate with the operator symbolic over all 12 variants and both operands symbolic over candidate sets of Integer/Number/String/Boolean/Null/Array, plus Equal/NotEqual over ANY pair of i64, against the documented meaning.",
    "note": "NOT covered: arithmetic expressions in conditions/assignments (the evaluator computes in f64; z3 float theory answered unknown at 600 s), contains/startsWith/endsWith/in at engine level (operator level only), Exists/Forall/Accumulate, nesting deeper than the listed shapes. Finite candidate domains for fact values. Trusted: rsym + library model, z3, reference model.",
}
CLAIMED["C11"] = {
    "text": "Bounded symbolic model checking of the REAL BackwardEngine::query (QueryParser, ConclusionIndex, DepthFirstSearch, RuleExecutor, GoalManager cache): one symbolic Horn rule, two queries on one engine (same goal text; in the thorough tier also a DIFFERENT first goal 'a == true') with the caller's facts replaced by arbitrary other facts in between, enable_memoization symbolic; the second answer must equal the answer of a fresh engine on the same facts. One open known finding (memoisation keyed by the query text only) is reported as KNOWN-FINDING; the memoisation-off obligation is separate and must hold.",
    "note": "R = 1 rule, two queries, DFS, max_depth 1 (quick) / 2 and the different-first-goal run at depth 1 (thorough; that run took 7-10 min, too slow for quick): two rules did not finish within 25 min. Attached RETE engines and longer query sequences outside. Trusted: rsym + library model, z3.",
}
NA.pop("C11", None)
NA["C09"] = "attempted on the real BackwardEngine::query with the rsym engine (checks/c09.py, checks/bwdcore.py): one symbolic rule decides in ~70 s but covers no chain/shared-sub-goal shape; two symbolic rules did not return within 25 min (40 min with symbolic strategy). The smallest meaningful bound (3 rules: two sub-goals proved, parent fails) is out of reach"
CLAIMED["C20"] = {
    "text": "File backend, both sentences, over a MODELLED file system: bounded symbolic model checking of the REAL StateStore (with_config, put, put_with_ttl, update, delete, get, checkpoint, restore; StateEntry::new/is_expired/update). (a) Restore clause: every history of K operations with symbolic arguments over two keys, each preceded by an arbitrary wall-clock advance >= 0 ms (0 = same millisecond); after every operation get(k) must equal a reference that on restore(j) becomes exactly the unexpired keys/values held when checkpoint j was taken; checkpoint/restore of an existing id must succeed. (b) Crash clause: after such a history one more checkpoint is interrupted at a symbolic file-system mutation (cut write_all leaves an unparseable prefix, later mutations never happen), a fresh StateStore is opened on the same directory; restoring any earlier checkpoint must succeed with the state at its checkpoint time, restoring the interrupted one must give an error or its complete state. Counterexamples are replayed against the real crate on a real temporary directory (crash emulated by truncating the interrupted state.json at every byte length / removing it).",
    "note": "std::fs, File, Path, serde_json and SystemTime::now are modelled (DESIGN.md 4.1): path->content map, exact JSON round trip, truncated text does not parse, clock frozen within an operation. NOT covered: retention eviction (max_checkpoints larger than the history), Redis/Custom backends, auto-checkpointing, torn directory metadata, restart within the millisecond of an earlier checkpoint. Trusted: rsym + library model, z3, reference model. Bounded in K.",
}
NA.pop("C20", None)
CLAIMED["C16"] = {
    "text": "Three of the four clauses, each on the REAL code against the plain computation, bounded symbolic model checking over histories of K operations with values symbolic over a candidate set built from printed-form collisions (Integer 1 / Float 1.0 / String \"1\", \"1.0\", \"NaN\", \"Integer(1)\"), signed zeros, NaN, booleans, null and arrays: (alpha) AlphaMemoryIndex insert/create_index/drop_index/filter/filter_tracked vs `fact.get(field) == Some(value)`; (beta) BetaMemoryIndex add/remove/lookup vs the live facts whose join-key value renders as the key; (conclusion index) ConclusionIndex add_rule/remove_rule/find_candidates proposes every indexed enabled rule with a Set action on the goal's field.",
    "note": "NOT covered: the memoisation clause (MemoizedEvaluator keys are DefaultHasher outputs: no model), auto_tune/statistics, MethodCall/Retract conclusions, BackwardEngine::find_candidate_rules' linear fallback. format!(\"{:?}\", FactValue) is modelled as derive(Debug) output. Finite candidate set. Trusted: rsym + library model, z3, reference. Bounded in K.",
}
NA.pop("C16", None)
CLAIMED["C14"] = {
    "text": "Bounded symbolic model checking of the REAL StreamJoinNode (process_left, process_right, update_watermark, is_within_window, evict_expired_events, generate_event_id; JoinType::Inner, JoinStrategy::TimeWindow): every history of K steps, each a left arrival, a right arrival or a watermark advance, with symbolic timestamps, join keys (incl. no key), window length, watermark values and an arbitrary symbolic join-condition relation; over the whole run every emitted pair must satisfy the join and be emitted at most once (always), and every joining pair must be emitted when no watermark advance came within eviction distance of an arrived event. K = 3 with the step kinds symbolic; K = 4 (quick and thorough: every L/R/W sequence with at least one left and one right arrival) and K = 5 (thorough: 12 selected sequences) by case split on the step kinds (each sequence is its own solver run, everything else symbolic). Quantifying over all side-tagged arrival sequences covers all pairs of per-stream sequences and all their merges; exactness makes the result independent of the interleaving.",
    "note": "At most 5 steps (events plus watermark advances): below the 4+4 events of the property's quantifier; the fully symbolic K = 4 run did not finish in 25 min, hence the case split. Key extractors / join condition are harness callbacks; ids unique per arrival; outer joins, count/session windows and join_manager routing outside. Trusted: rsym + library model (injective coding of format!(\"{}_{}\", id, ts)), z3, reference.",
}
NA.pop("C14", None)
CLAIMED["C19"] = {
    "text": "Thread-count / chunking clause only: the REAL ParallelRuleEngine::execute_parallel (group_rules_by_salience, should_parallelize, execute_rules_parallel incl. chunk arithmetic, worker closures and the shared result vector, execute_rules_sequential, evaluate_rule_conditions, evaluate_single_condition) is executed symbolically for N rules with symbolic conditions (flag == true, And, Or, Not), symbolic salience with ties, symbolic enabled flags, symbolic facts and a symbolic ParallelConfig (enabled, max_threads 1..16, min_rules_per_thread 1..4): it must return Ok, report every enabled rule exactly once, and the set of fired rules and both counts must equal evaluating the enabled rules one by one on the same facts.",
    "note": "ONE thread schedule: std::thread::spawn runs the worker to completion at spawn time; Arc/Mutex/RwLock transparent. The 'every thread schedule' part of C19 is NOT decided (no interleaving model in this family here); native replays of counterexamples run the real threads 20 times. N = 3 (quick) / 4 (thorough) rules, far below 24. Custom functions, exists/forall/accumulate/multifield conditions outside; calculate_speedup stubbed. Trusted: rsym + library model, z3, reference.",
}
NA.pop("C19", None)
