//! `vseq` — inline-array models of `Vec`, `VecDeque` and `BinaryHeap` (DESIGN.md 3.2).
//!
//! Only the files named in a check's `shadow_seq` list get these (a mechanical
//! `use crate::vseq::{Vec, VecDeque, BinaryHeap}` + `vec!` shadow); everything
//! else keeps std's heap containers. Motivation (measured): with heap-backed
//! `Vec`s CBMC cannot constant-propagate lengths/pointers, every `clone()` is a
//! symbolic-size malloc+memcpy, and a 3-operation TMS history did not finish in
//! 300 s; with inline arrays the same history takes seconds.
//!
//! Capacity is `VCAP`; exceeding it panics with "vseq capacity exceeded" (reported
//! as a bound error by the runner). Natively (`cfg(not(kani))`) the same code runs
//! with a larger capacity so the repo's own unit tests validate the model.

#![allow(dead_code)]

use std::fmt;
use std::mem::MaybeUninit;
use std::ops::{Bound, Deref, DerefMut, RangeBounds};

/// capacity of every inline Vec/VecDeque/BinaryHeap under Kani; chosen per check (VSEQ_CAP), default 8
#[cfg(kani)]
pub const VCAP: usize = match option_env!("VSEQ_CAP") {
    Some(s) => crate::vshim::parse_cap(s),
    None => 8,
};
#[cfg(not(kani))]
pub const VCAP: usize = 48;

#[cold]
fn full() -> ! {
    panic!("vseq capacity exceeded")
}

// --------------------------------------------------------------------------
// Vec
// --------------------------------------------------------------------------

pub struct Vec<T> {
    a: [MaybeUninit<T>; VCAP],
    n: usize,
}

impl<T> Vec<T> {
    #[inline]
    pub const fn new() -> Self {
        Vec { a: [const { MaybeUninit::uninit() }; VCAP], n: 0 }
    }
    #[inline]
    pub fn with_capacity(_c: usize) -> Self {
        Self::new()
    }
    #[inline]
    pub fn capacity(&self) -> usize {
        VCAP
    }
    #[inline]
    pub fn reserve(&mut self, _c: usize) {}
    #[inline]
    pub fn shrink_to_fit(&mut self) {}
    #[inline]
    pub fn as_slice(&self) -> &[T] {
        self
    }
    #[inline]
    pub fn as_mut_slice(&mut self) -> &mut [T] {
        self
    }
    pub fn push(&mut self, t: T) {
        if self.n >= VCAP {
            full();
        }
        self.a[self.n] = MaybeUninit::new(t);
        self.n += 1;
    }
    pub fn pop(&mut self) -> Option<T> {
        if self.n == 0 {
            None
        } else {
            self.n -= 1;
            Some(unsafe { self.a[self.n].assume_init_read() })
        }
    }
    pub fn clear(&mut self) {
        self.truncate(0)
    }
    pub fn truncate(&mut self, k: usize) {
        while self.n > k {
            self.n -= 1;
            unsafe { self.a[self.n].assume_init_drop() };
        }
    }
    pub fn insert(&mut self, i: usize, t: T) {
        if i > self.n {
            panic!("insertion index out of bounds");
        }
        if self.n >= VCAP {
            full();
        }
        let mut k = self.n;
        while k > i {
            self.a[k] = MaybeUninit::new(unsafe { self.a[k - 1].assume_init_read() });
            k -= 1;
        }
        self.a[i] = MaybeUninit::new(t);
        self.n += 1;
    }
    pub fn remove(&mut self, i: usize) -> T {
        if i >= self.n {
            panic!("removal index out of bounds");
        }
        let t = unsafe { self.a[i].assume_init_read() };
        let mut k = i;
        while k + 1 < self.n {
            self.a[k] = MaybeUninit::new(unsafe { self.a[k + 1].assume_init_read() });
            k += 1;
        }
        self.n -= 1;
        t
    }
    pub fn swap_remove(&mut self, i: usize) -> T {
        if i >= self.n {
            panic!("swap_remove index out of bounds");
        }
        let t = unsafe { self.a[i].assume_init_read() };
        self.n -= 1;
        if i != self.n {
            self.a[i] = MaybeUninit::new(unsafe { self.a[self.n].assume_init_read() });
        }
        t
    }
    pub fn retain<F: FnMut(&T) -> bool>(&mut self, mut f: F) {
        self.retain_mut(|t| f(t))
    }
    pub fn retain_mut<F: FnMut(&mut T) -> bool>(&mut self, mut f: F) {
        let n = self.n;
        let mut w = 0;
        let mut r = 0;
        while r < n {
            let keep = f(unsafe { self.a[r].assume_init_mut() });
            if keep {
                if w != r {
                    self.a[w] = MaybeUninit::new(unsafe { self.a[r].assume_init_read() });
                }
                w += 1;
            } else {
                unsafe { self.a[r].assume_init_drop() };
            }
            r += 1;
        }
        self.n = w;
    }
    pub fn drain<R: RangeBounds<usize>>(&mut self, r: R) -> IntoIter<T> {
        let start = match r.start_bound() {
            Bound::Included(&s) => s,
            Bound::Excluded(&s) => s + 1,
            Bound::Unbounded => 0,
        };
        let end = match r.end_bound() {
            Bound::Included(&e) => e + 1,
            Bound::Excluded(&e) => e,
            Bound::Unbounded => self.n,
        };
        if start > end || end > self.n {
            panic!("drain range out of bounds");
        }
        let mut out = Vec::new();
        let mut k = start;
        while k < end {
            out.push(unsafe { self.a[k].assume_init_read() });
            k += 1;
        }
        let mut w = start;
        let mut k = end;
        while k < self.n {
            self.a[w] = MaybeUninit::new(unsafe { self.a[k].assume_init_read() });
            w += 1;
            k += 1;
        }
        self.n = w;
        out.into_iter()
    }
    pub fn append(&mut self, o: &mut Vec<T>) {
        let mut k = 0;
        while k < o.n {
            self.push(unsafe { o.a[k].assume_init_read() });
            k += 1;
        }
        o.n = 0;
    }
    pub fn extend_from_slice(&mut self, s: &[T])
    where
        T: Clone,
    {
        for t in s {
            self.push(t.clone());
        }
    }
    pub fn dedup(&mut self)
    where
        T: PartialEq,
    {
        if self.n < 2 {
            return;
        }
        let mut out: Vec<T> = Vec::new();
        let mut k = 0;
        let n = self.n;
        self.n = 0;
        while k < n {
            let t = unsafe { self.a[k].assume_init_read() };
            if out.n > 0 && out[out.n - 1] == t {
                drop(t);
            } else {
                out.push(t);
            }
            k += 1;
        }
        *self = out;
    }
}

impl<T> Drop for Vec<T> {
    fn drop(&mut self) {
        if std::mem::needs_drop::<T>() {
            self.truncate(0);
        }
    }
}
impl<T> Deref for Vec<T> {
    type Target = [T];
    #[inline]
    fn deref(&self) -> &[T] {
        unsafe { std::slice::from_raw_parts(self.a.as_ptr() as *const T, self.n) }
    }
}
impl<T> DerefMut for Vec<T> {
    #[inline]
    fn deref_mut(&mut self) -> &mut [T] {
        unsafe { std::slice::from_raw_parts_mut(self.a.as_mut_ptr() as *mut T, self.n) }
    }
}
impl<T> Default for Vec<T> {
    fn default() -> Self {
        Vec::new()
    }
}
impl<T: Clone> Clone for Vec<T> {
    fn clone(&self) -> Self {
        let mut v = Vec::new();
        let mut k = 0;
        while k < self.n {
            v.push(unsafe { self.a[k].assume_init_ref() }.clone());
            k += 1;
        }
        v
    }
}
impl<T: fmt::Debug> fmt::Debug for Vec<T> {
    fn fmt(&self, f: &mut fmt::Formatter<'_>) -> fmt::Result {
        f.debug_list().entries(self.iter()).finish()
    }
}
impl<T: PartialEq> PartialEq for Vec<T> {
    fn eq(&self, o: &Self) -> bool {
        if self.n != o.n {
            return false;
        }
        let mut k = 0;
        while k < self.n {
            if self[k] != o[k] {
                return false;
            }
            k += 1;
        }
        true
    }
}
impl<T: Eq> Eq for Vec<T> {}
impl<T: PartialEq> PartialEq<[T]> for Vec<T> {
    fn eq(&self, o: &[T]) -> bool {
        **self == *o
    }
}
impl<T: PartialEq, const N: usize> PartialEq<[T; N]> for Vec<T> {
    fn eq(&self, o: &[T; N]) -> bool {
        **self == o[..]
    }
}
impl<T: PartialEq> PartialEq<std::vec::Vec<T>> for Vec<T> {
    fn eq(&self, o: &std::vec::Vec<T>) -> bool {
        **self == o[..]
    }
}
impl<T: std::hash::Hash> std::hash::Hash for Vec<T> {
    fn hash<H: std::hash::Hasher>(&self, h: &mut H) {
        (**self).hash(h)
    }
}
impl<T> FromIterator<T> for Vec<T> {
    fn from_iter<I: IntoIterator<Item = T>>(it: I) -> Self {
        let mut v = Vec::new();
        for t in it {
            v.push(t);
        }
        v
    }
}
impl<T> Extend<T> for Vec<T> {
    fn extend<I: IntoIterator<Item = T>>(&mut self, it: I) {
        for t in it {
            self.push(t);
        }
    }
}
impl<'a, T: Copy + 'a> Extend<&'a T> for Vec<T> {
    fn extend<I: IntoIterator<Item = &'a T>>(&mut self, it: I) {
        for t in it {
            self.push(*t);
        }
    }
}
impl<T, const N: usize> From<[T; N]> for Vec<T> {
    fn from(a: [T; N]) -> Self {
        a.into_iter().collect()
    }
}
impl<T: Clone> From<&[T]> for Vec<T> {
    fn from(a: &[T]) -> Self {
        a.iter().cloned().collect()
    }
}
impl<T> From<std::vec::Vec<T>> for Vec<T> {
    fn from(a: std::vec::Vec<T>) -> Self {
        a.into_iter().collect()
    }
}
impl<T> From<Vec<T>> for std::vec::Vec<T> {
    fn from(a: Vec<T>) -> Self {
        a.into_iter().collect()
    }
}
impl<T> AsRef<[T]> for Vec<T> {
    fn as_ref(&self) -> &[T] {
        self
    }
}
impl<T> std::borrow::Borrow<[T]> for Vec<T> {
    fn borrow(&self) -> &[T] {
        self
    }
}

pub struct IntoIter<T> {
    v: Vec<T>,
    i: usize,
}
impl<T> Iterator for IntoIter<T> {
    type Item = T;
    fn next(&mut self) -> Option<T> {
        if self.i < self.v.n {
            let t = unsafe { self.v.a[self.i].assume_init_read() };
            self.i += 1;
            Some(t)
        } else {
            None
        }
    }
    fn size_hint(&self) -> (usize, Option<usize>) {
        (self.v.n - self.i, Some(self.v.n - self.i))
    }
}
impl<T> DoubleEndedIterator for IntoIter<T> {
    fn next_back(&mut self) -> Option<T> {
        if self.i < self.v.n {
            self.v.n -= 1;
            Some(unsafe { self.v.a[self.v.n].assume_init_read() })
        } else {
            None
        }
    }
}
impl<T> ExactSizeIterator for IntoIter<T> {}
impl<T> Drop for IntoIter<T> {
    fn drop(&mut self) {
        while self.i < self.v.n {
            unsafe { self.v.a[self.i].assume_init_drop() };
            self.i += 1;
        }
        self.v.n = 0;
    }
}
impl<T> IntoIterator for Vec<T> {
    type Item = T;
    type IntoIter = IntoIter<T>;
    fn into_iter(self) -> IntoIter<T> {
        IntoIter { v: self, i: 0 }
    }
}
impl<'a, T> IntoIterator for &'a Vec<T> {
    type Item = &'a T;
    type IntoIter = std::slice::Iter<'a, T>;
    fn into_iter(self) -> Self::IntoIter {
        self.iter()
    }
}
impl<'a, T> IntoIterator for &'a mut Vec<T> {
    type Item = &'a mut T;
    type IntoIter = std::slice::IterMut<'a, T>;
    fn into_iter(self) -> Self::IntoIter {
        self.iter_mut()
    }
}
impl<T: serde::Serialize> serde::Serialize for Vec<T> {
    fn serialize<S: serde::Serializer>(&self, s: S) -> Result<S::Ok, S::Error> {
        s.collect_seq(self.iter())
    }
}
impl<'de, T: serde::Deserialize<'de>> serde::Deserialize<'de> for Vec<T> {
    fn deserialize<D: serde::Deserializer<'de>>(d: D) -> Result<Self, D::Error> {
        let v: std::vec::Vec<T> = std::vec::Vec::deserialize(d)?;
        Ok(v.into_iter().collect())
    }
}

#[macro_export]
macro_rules! vseq_vec {
    () => { $crate::vseq::Vec::new() };
    ($elem:expr; $n:expr) => {{
        let mut v = $crate::vseq::Vec::new();
        let e = $elem;
        let mut i = 0usize;
        while i < $n { v.push(::core::clone::Clone::clone(&e)); i += 1; }
        v
    }};
    ($($x:expr),+ $(,)?) => {{
        let mut v = $crate::vseq::Vec::new();
        $( v.push($x); )+
        v
    }};
}

// --------------------------------------------------------------------------
// VecDeque (ring buffer)
// --------------------------------------------------------------------------

pub struct VecDeque<T> {
    a: [MaybeUninit<T>; VCAP],
    head: usize,
    n: usize,
}

impl<T> VecDeque<T> {
    #[inline]
    pub const fn new() -> Self {
        VecDeque { a: [const { MaybeUninit::uninit() }; VCAP], head: 0, n: 0 }
    }
    #[inline]
    pub fn with_capacity(_c: usize) -> Self {
        Self::new()
    }
    #[inline]
    pub fn len(&self) -> usize {
        self.n
    }
    #[inline]
    pub fn is_empty(&self) -> bool {
        self.n == 0
    }
    #[inline]
    pub fn capacity(&self) -> usize {
        VCAP
    }
    #[inline]
    fn phys(&self, i: usize) -> usize {
        let p = self.head + i;
        if p >= VCAP {
            p - VCAP
        } else {
            p
        }
    }
    pub fn push_back(&mut self, t: T) {
        if self.n >= VCAP {
            full();
        }
        let p = self.phys(self.n);
        self.a[p] = MaybeUninit::new(t);
        self.n += 1;
    }
    pub fn push_front(&mut self, t: T) {
        if self.n >= VCAP {
            full();
        }
        self.head = if self.head == 0 { VCAP - 1 } else { self.head - 1 };
        self.a[self.head] = MaybeUninit::new(t);
        self.n += 1;
    }
    pub fn pop_front(&mut self) -> Option<T> {
        if self.n == 0 {
            return None;
        }
        let t = unsafe { self.a[self.head].assume_init_read() };
        self.head = if self.head + 1 == VCAP { 0 } else { self.head + 1 };
        self.n -= 1;
        Some(t)
    }
    pub fn pop_back(&mut self) -> Option<T> {
        if self.n == 0 {
            return None;
        }
        self.n -= 1;
        let p = self.phys(self.n);
        Some(unsafe { self.a[p].assume_init_read() })
    }
    pub fn get(&self, i: usize) -> Option<&T> {
        if i < self.n {
            Some(unsafe { self.a[self.phys(i)].assume_init_ref() })
        } else {
            None
        }
    }
    pub fn get_mut(&mut self, i: usize) -> Option<&mut T> {
        if i < self.n {
            let p = self.phys(i);
            Some(unsafe { self.a[p].assume_init_mut() })
        } else {
            None
        }
    }
    pub fn front(&self) -> Option<&T> {
        self.get(0)
    }
    pub fn back(&self) -> Option<&T> {
        if self.n == 0 {
            None
        } else {
            self.get(self.n - 1)
        }
    }
    pub fn front_mut(&mut self) -> Option<&mut T> {
        self.get_mut(0)
    }
    pub fn back_mut(&mut self) -> Option<&mut T> {
        if self.n == 0 {
            None
        } else {
            self.get_mut(self.n - 1)
        }
    }
    pub fn clear(&mut self) {
        while self.pop_front().is_some() {}
        self.head = 0;
    }
    pub fn iter(&self) -> DequeIter<'_, T> {
        DequeIter { d: self, i: 0, end: self.n }
    }
    pub fn iter_mut(&mut self) -> impl Iterator<Item = &mut T> {
        let head = self.head;
        let n = self.n;
        let (lo, hi) = self.a.split_at_mut(head);
        // logical order: hi[0..], then lo[0..]
        hi.iter_mut()
            .chain(lo.iter_mut())
            .take(n)
            .map(|m| unsafe { m.assume_init_mut() })
    }
    pub fn retain<F: FnMut(&T) -> bool>(&mut self, mut f: F) {
        let n = self.n;
        let mut k = 0;
        while k < n {
            let t = self.pop_front().unwrap();
            if f(&t) {
                self.push_back(t);
            }
            k += 1;
        }
    }
    pub fn contains(&self, x: &T) -> bool
    where
        T: PartialEq,
    {
        self.iter().any(|t| t == x)
    }
    pub fn drain<R: RangeBounds<usize>>(&mut self, _r: R) -> IntoIter<T> {
        // only the full range is used by the units
        let mut out = Vec::new();
        while let Some(t) = self.pop_front() {
            out.push(t);
        }
        out.into_iter()
    }
    pub fn truncate(&mut self, k: usize) {
        while self.n > k {
            self.pop_back();
        }
    }
}
impl<T> std::ops::Index<usize> for VecDeque<T> {
    type Output = T;
    fn index(&self, i: usize) -> &T {
        self.get(i).expect("Out of bounds access")
    }
}
impl<T> std::ops::IndexMut<usize> for VecDeque<T> {
    fn index_mut(&mut self, i: usize) -> &mut T {
        self.get_mut(i).expect("Out of bounds access")
    }
}
impl<T> Drop for VecDeque<T> {
    fn drop(&mut self) {
        if std::mem::needs_drop::<T>() {
            while self.pop_front().is_some() {}
        }
    }
}
pub struct DequeIter<'a, T> {
    d: &'a VecDeque<T>,
    i: usize,
    end: usize,
}
impl<'a, T> Iterator for DequeIter<'a, T> {
    type Item = &'a T;
    fn next(&mut self) -> Option<&'a T> {
        if self.i < self.end {
            let r = self.d.get(self.i);
            self.i += 1;
            r
        } else {
            None
        }
    }
    fn size_hint(&self) -> (usize, Option<usize>) {
        (self.end - self.i, Some(self.end - self.i))
    }
}
impl<'a, T> DoubleEndedIterator for DequeIter<'a, T> {
    fn next_back(&mut self) -> Option<&'a T> {
        if self.i < self.end {
            self.end -= 1;
            self.d.get(self.end)
        } else {
            None
        }
    }
}
impl<'a, T> ExactSizeIterator for DequeIter<'a, T> {}
impl<'a, T> Clone for DequeIter<'a, T> {
    fn clone(&self) -> Self {
        DequeIter { d: self.d, i: self.i, end: self.end }
    }
}
impl<T> Default for VecDeque<T> {
    fn default() -> Self {
        VecDeque::new()
    }
}
impl<T: Clone> Clone for VecDeque<T> {
    fn clone(&self) -> Self {
        let mut d = VecDeque::new();
        for t in self.iter() {
            d.push_back(t.clone());
        }
        d
    }
}
impl<T: fmt::Debug> fmt::Debug for VecDeque<T> {
    fn fmt(&self, f: &mut fmt::Formatter<'_>) -> fmt::Result {
        f.debug_list().entries(self.iter()).finish()
    }
}
impl<T: PartialEq> PartialEq for VecDeque<T> {
    fn eq(&self, o: &Self) -> bool {
        self.n == o.n && self.iter().zip(o.iter()).all(|(a, b)| a == b)
    }
}
impl<T> FromIterator<T> for VecDeque<T> {
    fn from_iter<I: IntoIterator<Item = T>>(it: I) -> Self {
        let mut d = VecDeque::new();
        for t in it {
            d.push_back(t);
        }
        d
    }
}
impl<T> Extend<T> for VecDeque<T> {
    fn extend<I: IntoIterator<Item = T>>(&mut self, it: I) {
        for t in it {
            self.push_back(t);
        }
    }
}
impl<T> IntoIterator for VecDeque<T> {
    type Item = T;
    type IntoIter = IntoIter<T>;
    fn into_iter(mut self) -> IntoIter<T> {
        let mut out = Vec::new();
        while let Some(t) = self.pop_front() {
            out.push(t);
        }
        out.into_iter()
    }
}
impl<'a, T> IntoIterator for &'a VecDeque<T> {
    type Item = &'a T;
    type IntoIter = DequeIter<'a, T>;
    fn into_iter(self) -> Self::IntoIter {
        self.iter()
    }
}
impl<T> From<Vec<T>> for VecDeque<T> {
    fn from(v: Vec<T>) -> Self {
        v.into_iter().collect()
    }
}
impl<T: serde::Serialize> serde::Serialize for VecDeque<T> {
    fn serialize<S: serde::Serializer>(&self, s: S) -> Result<S::Ok, S::Error> {
        s.collect_seq(self.iter())
    }
}

// --------------------------------------------------------------------------
// BinaryHeap (priority queue: pop returns a maximum by Ord; among equal maxima
// the earliest pushed — std leaves that order unspecified)
// --------------------------------------------------------------------------

pub struct BinaryHeap<T> {
    v: Vec<T>,
}
impl<T: Ord> BinaryHeap<T> {
    pub fn new() -> Self {
        BinaryHeap { v: Vec::new() }
    }
    pub fn with_capacity(_c: usize) -> Self {
        Self::new()
    }
    pub fn push(&mut self, t: T) {
        self.v.push(t)
    }
    fn max_pos(&self) -> Option<usize> {
        if self.v.is_empty() {
            return None;
        }
        let mut best = 0;
        let mut k = 1;
        while k < self.v.len() {
            if self.v[k].cmp(&self.v[best]) == std::cmp::Ordering::Greater {
                best = k;
            }
            k += 1;
        }
        Some(best)
    }
    pub fn pop(&mut self) -> Option<T> {
        match self.max_pos() {
            Some(i) => Some(self.v.remove(i)),
            None => None,
        }
    }
    pub fn peek(&self) -> Option<&T> {
        match self.max_pos() {
            Some(i) => Some(&self.v[i]),
            None => None,
        }
    }
    pub fn into_sorted_vec(mut self) -> Vec<T> {
        let mut out = Vec::new();
        while let Some(t) = self.pop() {
            out.push(t);
        }
        out.reverse();
        out
    }
    pub fn into_vec(self) -> Vec<T> {
        self.v
    }
    pub fn drain(&mut self) -> IntoIter<T> {
        let v = std::mem::replace(&mut self.v, Vec::new());
        v.into_iter()
    }
    pub fn retain<F: FnMut(&T) -> bool>(&mut self, f: F) {
        self.v.retain(f)
    }
}
impl<T> BinaryHeap<T> {
    pub fn len(&self) -> usize {
        self.v.len()
    }
    pub fn is_empty(&self) -> bool {
        self.v.is_empty()
    }
    pub fn clear(&mut self) {
        self.v.clear()
    }
    pub fn iter(&self) -> std::slice::Iter<'_, T> {
        self.v.iter()
    }
}
impl<T: Ord> Default for BinaryHeap<T> {
    fn default() -> Self {
        BinaryHeap::new()
    }
}
impl<T: Clone> Clone for BinaryHeap<T> {
    fn clone(&self) -> Self {
        BinaryHeap { v: self.v.clone() }
    }
}
impl<T: fmt::Debug> fmt::Debug for BinaryHeap<T> {
    fn fmt(&self, f: &mut fmt::Formatter<'_>) -> fmt::Result {
        f.debug_list().entries(self.v.iter()).finish()
    }
}
impl<T: Ord> FromIterator<T> for BinaryHeap<T> {
    fn from_iter<I: IntoIterator<Item = T>>(it: I) -> Self {
        BinaryHeap { v: it.into_iter().collect() }
    }
}
impl<T: Ord> Extend<T> for BinaryHeap<T> {
    fn extend<I: IntoIterator<Item = T>>(&mut self, it: I) {
        for t in it {
            self.v.push(t);
        }
    }
}
impl<T> IntoIterator for BinaryHeap<T> {
    type Item = T;
    type IntoIter = IntoIter<T>;
    fn into_iter(self) -> IntoIter<T> {
        self.v.into_iter()
    }
}
impl<'a, T> IntoIterator for &'a BinaryHeap<T> {
    type Item = &'a T;
    type IntoIter = std::slice::Iter<'a, T>;
    fn into_iter(self) -> Self::IntoIter {
        self.v.iter()
    }
}
impl<T: Ord> From<Vec<T>> for BinaryHeap<T> {
    fn from(v: Vec<T>) -> Self {
        BinaryHeap { v }
    }
}
