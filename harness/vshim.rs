//! `vshim` — environment model of `std::collections::{HashMap, HashSet}` used by
//! the verification crate (DESIGN.md 3.2).
//!
//! Functional behaviour of a map / set over a slot store:
//!   * under `cfg(kani)` the store is an inline array `[Option<T>; CAP]` — no heap,
//!     so CBMC constant-propagates concrete histories and uses array theory for
//!     symbolic ones (std's hashbrown never returns: one insert > 300 s, and a
//!     `Vec`-backed store made symex crawl because every access dereferences a
//!     re-allocated heap object);
//!   * natively the store is a growable `Vec<Option<T>>` with exactly the same
//!     slot logic, which is what `bin/check --validate-model` runs the repo's own
//!     unit tests against.
//! Removal leaves a tombstone (`None`); iteration is in slot order and skips
//! tombstones (std: unspecified order). Exceeding `CAP` under Kani panics with
//! "vshim capacity exceeded", which the runner reports as a bound error, never
//! as success.

#![allow(dead_code)]

use std::borrow::Borrow;
use std::fmt;
use std::hash::Hash;

pub const fn parse_cap(s: &str) -> usize {
    let b = s.as_bytes();
    let mut i = 0;
    let mut n = 0usize;
    while i < b.len() {
        n = n * 10 + (b[i] - b'0') as usize;
        i += 1;
    }
    n
}
/// capacity of every inline map/set under Kani; chosen per check (VSHIM_CAP), default 8
#[cfg(kani)]
pub const CAP: usize = match option_env!("VSHIM_CAP") {
    Some(s) => parse_cap(s),
    None => 8,
};

// --------------------------------------------------------------------------
// slot store
// --------------------------------------------------------------------------

/// Fixed-capacity slot array: inline (default) or boxed (for recursive types
/// such as `Value::Object(HashMap<String, Value>)`, which cannot be inline).
pub trait Slots<T> {
    fn new_slots() -> Self;
    fn sl(&self) -> &[Option<T>];
    fn sl_mut(&mut self) -> &mut [Option<T>];
    #[inline]
    fn at(&self, i: usize) -> &Option<T> {
        &self.sl()[i]
    }
    #[inline]
    fn at_mut(&mut self, i: usize) -> &mut Option<T> {
        &mut self.sl_mut()[i]
    }
    #[inline]
    fn cap(&self) -> usize {
        self.sl().len()
    }
    fn grow(&mut self) -> bool;
    fn reset(&mut self);
}

#[cfg(kani)]
pub struct Inline<T>([Option<T>; CAP]);
#[cfg(kani)]
impl<T> Slots<T> for Inline<T> {
    #[inline]
    fn new_slots() -> Self {
        Inline([const { None }; CAP])
    }
    #[inline]
    fn sl(&self) -> &[Option<T>] {
        &self.0
    }
    #[inline]
    fn sl_mut(&mut self) -> &mut [Option<T>] {
        &mut self.0
    }
    #[inline]
    fn at(&self, i: usize) -> &Option<T> {
        &self.0[i]
    }
    #[inline]
    fn at_mut(&mut self, i: usize) -> &mut Option<T> {
        &mut self.0[i]
    }
    #[inline]
    fn cap(&self) -> usize {
        CAP
    }
    #[inline]
    fn grow(&mut self) -> bool {
        false
    }
    #[inline]
    fn reset(&mut self) {}
}
#[cfg(kani)]
impl<T: Clone> Clone for Inline<T> {
    fn clone(&self) -> Self {
        Inline(self.0.clone())
    }
}

/// Heap-backed slots: the only flavour natively; under Kani used where a type is
/// recursive through the map (allocated lazily, so an empty map owns no heap).
pub struct Boxed<T>(Vec<Option<T>>);
impl<T> Slots<T> for Boxed<T> {
    #[inline]
    fn new_slots() -> Self {
        Boxed(Vec::new())
    }
    #[inline]
    fn sl(&self) -> &[Option<T>] {
        &self.0
    }
    #[inline]
    fn sl_mut(&mut self) -> &mut [Option<T>] {
        &mut self.0
    }
    #[inline]
    fn grow(&mut self) -> bool {
        #[cfg(kani)]
        if self.0.len() >= CAP {
            return false;
        }
        self.0.push(None);
        true
    }
    #[inline]
    fn reset(&mut self) {
        self.0.clear()
    }
}
impl<T: Clone> Clone for Boxed<T> {
    fn clone(&self) -> Self {
        Boxed(self.0.clone())
    }
}

#[cfg(not(kani))]
pub type Inline<T> = Boxed<T>;

pub struct Store<T, A: Slots<T> = Inline<T>> {
    a: A,
    hw: usize,   // slots >= hw are None
    live: usize, // number of Some slots
    _t: std::marker::PhantomData<T>,
}
impl<T, A: Slots<T> + Clone> Clone for Store<T, A> {
    fn clone(&self) -> Self {
        Store { a: self.a.clone(), hw: self.hw, live: self.live, _t: std::marker::PhantomData }
    }
}

impl<T, A: Slots<T>> Store<T, A> {
    #[inline]
    pub fn new() -> Self {
        Store { a: A::new_slots(), hw: 0, live: 0, _t: std::marker::PhantomData }
    }
    #[inline]
    pub fn hw(&self) -> usize {
        self.hw
    }
    #[inline]
    pub fn live(&self) -> usize {
        self.live
    }
    #[inline]
    pub fn slot(&self, i: usize) -> Option<&T> {
        self.a.at(i).as_ref()
    }
    #[inline]
    pub fn slot_mut(&mut self, i: usize) -> Option<&mut T> {
        self.a.at_mut(i).as_mut()
    }
    pub fn push(&mut self, t: T) -> usize {
        if self.hw < self.a.cap() || self.a.grow() {
            let i = self.hw;
            *self.a.at_mut(i) = Some(t);
            self.hw += 1;
            self.live += 1;
            return i;
        }
        let mut i = 0;
        while i < self.hw {
            if self.a.at(i).is_none() {
                *self.a.at_mut(i) = Some(t);
                self.live += 1;
                return i;
            }
            i += 1;
        }
        panic!("vshim capacity exceeded");
    }
    pub fn take(&mut self, i: usize) -> Option<T> {
        let r = self.a.at_mut(i).take();
        if r.is_some() {
            self.live -= 1;
        }
        r
    }
    pub fn clear(&mut self) {
        let mut i = 0;
        while i < self.hw {
            *self.a.at_mut(i) = None;
            i += 1;
        }
        self.hw = 0;
        self.live = 0;
        self.a.reset();
    }
    fn into_vec(mut self) -> Vec<T> {
        let mut v = Vec::new();
        let mut i = 0;
        while i < self.hw {
            if let Some(t) = self.a.at_mut(i).take() {
                v.push(t);
            }
            i += 1;
        }
        v
    }
    pub fn iter(&self) -> SlotIter<'_, T, A> {
        SlotIter { s: self, i: 0, left: self.live }
    }
    pub fn iter_mut(&mut self) -> impl Iterator<Item = &mut T> {
        let hw = self.hw;
        self.a.sl_mut()[..hw].iter_mut().filter_map(|o| o.as_mut())
    }
}

pub struct SlotIter<'a, T, A: Slots<T> = Inline<T>> {
    s: &'a Store<T, A>,
    i: usize,
    left: usize,
}
impl<'a, T, A: Slots<T>> Iterator for SlotIter<'a, T, A> {
    type Item = &'a T;
    fn next(&mut self) -> Option<&'a T> {
        while self.i < self.s.hw {
            let k = self.i;
            self.i += 1;
            if let Some(t) = self.s.a.at(k).as_ref() {
                self.left -= 1;
                return Some(t);
            }
        }
        None
    }
    fn size_hint(&self) -> (usize, Option<usize>) {
        (self.left, Some(self.left))
    }
}
impl<'a, T, A: Slots<T>> ExactSizeIterator for SlotIter<'a, T, A> {}
impl<'a, T, A: Slots<T>> Clone for SlotIter<'a, T, A> {
    fn clone(&self) -> Self {
        SlotIter { s: self.s, i: self.i, left: self.left }
    }
}

// --------------------------------------------------------------------------
// HashMap
// --------------------------------------------------------------------------

pub struct HashMap<K, V, A: Slots<(K, V)> = Inline<(K, V)>> {
    s: Store<(K, V), A>,
}
/// boxed flavour, for types that are recursive through the map
pub type HashMapB<K, V> = HashMap<K, V, Boxed<(K, V)>>;
impl<K: Clone, V: Clone, A: Slots<(K, V)> + Clone> Clone for HashMap<K, V, A> {
    fn clone(&self) -> Self {
        HashMap { s: self.s.clone() }
    }
}

impl<K, V, A: Slots<(K, V)>> HashMap<K, V, A> {
    #[inline]
    pub fn new() -> Self {
        HashMap { s: Store::new() }
    }
    #[inline]
    pub fn with_capacity(_n: usize) -> Self {
        HashMap { s: Store::new() }
    }
    #[inline]
    pub fn len(&self) -> usize {
        self.s.live()
    }
    #[inline]
    pub fn is_empty(&self) -> bool {
        self.s.live() == 0
    }
    #[inline]
    pub fn clear(&mut self) {
        self.s.clear()
    }
    #[inline]
    pub fn capacity(&self) -> usize {
        self.s.hw()
    }
    #[inline]
    pub fn reserve(&mut self, _n: usize) {}
    #[inline]
    pub fn shrink_to_fit(&mut self) {}
    pub fn iter(&self) -> Iter<'_, K, V, A> {
        Iter { it: self.s.iter() }
    }
    pub fn iter_mut(&mut self) -> impl Iterator<Item = (&K, &mut V)> {
        self.s.iter_mut().map(|kv| (&kv.0, &mut kv.1))
    }
    pub fn keys(&self) -> Keys<'_, K, V, A> {
        Keys { it: self.s.iter() }
    }
    pub fn values(&self) -> Values<'_, K, V, A> {
        Values { it: self.s.iter() }
    }
    pub fn values_mut(&mut self) -> impl Iterator<Item = &mut V> {
        self.s.iter_mut().map(|kv| &mut kv.1)
    }
    pub fn into_keys(self) -> impl Iterator<Item = K> {
        self.s.into_vec().into_iter().map(|(k, _)| k)
    }
    pub fn into_values(self) -> impl Iterator<Item = V> {
        self.s.into_vec().into_iter().map(|(_, v)| v)
    }
    pub fn drain(&mut self) -> std::vec::IntoIter<(K, V)> {
        let s = std::mem::replace(&mut self.s, Store::new());
        s.into_vec().into_iter()
    }
    pub fn retain<F: FnMut(&K, &mut V) -> bool>(&mut self, mut f: F) {
        let mut i = 0;
        while i < self.s.hw() {
            let keep = match self.s.slot_mut(i) {
                Some(kv) => f(&kv.0, &mut kv.1),
                None => true,
            };
            if !keep {
                self.s.take(i);
            }
            i += 1;
        }
    }
}

impl<K: Eq + Hash, V, A: Slots<(K, V)>> HashMap<K, V, A> {
    #[inline]
    fn pos<Q: ?Sized>(&self, k: &Q) -> Option<usize>
    where
        K: Borrow<Q>,
        Q: Eq + Hash,
    {
        let mut i = 0;
        while i < self.s.hw() {
            if let Some(kv) = self.s.slot(i) {
                if kv.0.borrow() == k {
                    return Some(i);
                }
            }
            i += 1;
        }
        None
    }
    pub fn insert(&mut self, k: K, v: V) -> Option<V> {
        match self.pos(&k) {
            Some(i) => Some(std::mem::replace(&mut self.s.slot_mut(i).unwrap().1, v)),
            None => {
                self.s.push((k, v));
                None
            }
        }
    }
    pub fn get<Q: ?Sized>(&self, k: &Q) -> Option<&V>
    where
        K: Borrow<Q>,
        Q: Eq + Hash,
    {
        match self.pos(k) {
            Some(i) => self.s.slot(i).map(|kv| &kv.1),
            None => None,
        }
    }
    pub fn get_key_value<Q: ?Sized>(&self, k: &Q) -> Option<(&K, &V)>
    where
        K: Borrow<Q>,
        Q: Eq + Hash,
    {
        match self.pos(k) {
            Some(i) => self.s.slot(i).map(|kv| (&kv.0, &kv.1)),
            None => None,
        }
    }
    pub fn get_mut<Q: ?Sized>(&mut self, k: &Q) -> Option<&mut V>
    where
        K: Borrow<Q>,
        Q: Eq + Hash,
    {
        match self.pos(k) {
            Some(i) => self.s.slot_mut(i).map(|kv| &mut kv.1),
            None => None,
        }
    }
    pub fn contains_key<Q: ?Sized>(&self, k: &Q) -> bool
    where
        K: Borrow<Q>,
        Q: Eq + Hash,
    {
        self.pos(k).is_some()
    }
    pub fn remove<Q: ?Sized>(&mut self, k: &Q) -> Option<V>
    where
        K: Borrow<Q>,
        Q: Eq + Hash,
    {
        match self.pos(k) {
            Some(i) => self.s.take(i).map(|kv| kv.1),
            None => None,
        }
    }
    pub fn remove_entry<Q: ?Sized>(&mut self, k: &Q) -> Option<(K, V)>
    where
        K: Borrow<Q>,
        Q: Eq + Hash,
    {
        match self.pos(k) {
            Some(i) => self.s.take(i),
            None => None,
        }
    }
    pub fn entry(&mut self, k: K) -> Entry<'_, K, V, A> {
        match self.pos(&k) {
            Some(i) => Entry::Occupied(OccupiedEntry { m: self, i }),
            None => Entry::Vacant(VacantEntry { m: self, k }),
        }
    }
}

pub enum Entry<'a, K, V, A: Slots<(K, V)> = Inline<(K, V)>> {
    Occupied(OccupiedEntry<'a, K, V, A>),
    Vacant(VacantEntry<'a, K, V, A>),
}
pub struct OccupiedEntry<'a, K, V, A: Slots<(K, V)> = Inline<(K, V)>> {
    m: &'a mut HashMap<K, V, A>,
    i: usize,
}
pub struct VacantEntry<'a, K, V, A: Slots<(K, V)> = Inline<(K, V)>> {
    m: &'a mut HashMap<K, V, A>,
    k: K,
}
impl<'a, K, V, A: Slots<(K, V)>> OccupiedEntry<'a, K, V, A> {
    pub fn get(&self) -> &V {
        &self.m.s.slot(self.i).unwrap().1
    }
    pub fn get_mut(&mut self) -> &mut V {
        &mut self.m.s.slot_mut(self.i).unwrap().1
    }
    pub fn into_mut(self) -> &'a mut V {
        &mut self.m.s.slot_mut(self.i).unwrap().1
    }
    pub fn insert(&mut self, v: V) -> V {
        std::mem::replace(&mut self.m.s.slot_mut(self.i).unwrap().1, v)
    }
    pub fn remove(self) -> V {
        self.m.s.take(self.i).unwrap().1
    }
    pub fn key(&self) -> &K {
        &self.m.s.slot(self.i).unwrap().0
    }
}
impl<'a, K, V, A: Slots<(K, V)>> VacantEntry<'a, K, V, A> {
    pub fn insert(self, v: V) -> &'a mut V {
        let i = self.m.s.push((self.k, v));
        &mut self.m.s.slot_mut(i).unwrap().1
    }
    pub fn key(&self) -> &K {
        &self.k
    }
}
impl<'a, K, V, A: Slots<(K, V)>> Entry<'a, K, V, A> {
    pub fn or_insert(self, v: V) -> &'a mut V {
        match self {
            Entry::Occupied(o) => o.into_mut(),
            Entry::Vacant(va) => va.insert(v),
        }
    }
    pub fn or_insert_with<F: FnOnce() -> V>(self, f: F) -> &'a mut V {
        match self {
            Entry::Occupied(o) => o.into_mut(),
            Entry::Vacant(va) => va.insert(f()),
        }
    }
    pub fn or_default(self) -> &'a mut V
    where
        V: Default,
    {
        match self {
            Entry::Occupied(o) => o.into_mut(),
            Entry::Vacant(va) => va.insert(V::default()),
        }
    }
    pub fn and_modify<F: FnOnce(&mut V)>(mut self, f: F) -> Self {
        if let Entry::Occupied(ref mut o) = self {
            f(o.get_mut());
        }
        self
    }
    pub fn key(&self) -> &K {
        match self {
            Entry::Occupied(o) => o.key(),
            Entry::Vacant(v) => v.key(),
        }
    }
}

pub struct Iter<'a, K, V, A: Slots<(K, V)> = Inline<(K, V)>> {
    it: SlotIter<'a, (K, V), A>,
}
impl<'a, K, V, A: Slots<(K, V)>> Iterator for Iter<'a, K, V, A> {
    type Item = (&'a K, &'a V);
    fn next(&mut self) -> Option<Self::Item> {
        self.it.next().map(|kv| (&kv.0, &kv.1))
    }
    fn size_hint(&self) -> (usize, Option<usize>) {
        self.it.size_hint()
    }
}
impl<'a, K, V, A: Slots<(K, V)>> ExactSizeIterator for Iter<'a, K, V, A> {}
impl<'a, K, V, A: Slots<(K, V)>> Clone for Iter<'a, K, V, A> {
    fn clone(&self) -> Self {
        Iter { it: self.it.clone() }
    }
}
pub struct Keys<'a, K, V, A: Slots<(K, V)> = Inline<(K, V)>> {
    it: SlotIter<'a, (K, V), A>,
}
impl<'a, K, V, A: Slots<(K, V)>> Iterator for Keys<'a, K, V, A> {
    type Item = &'a K;
    fn next(&mut self) -> Option<Self::Item> {
        self.it.next().map(|kv| &kv.0)
    }
    fn size_hint(&self) -> (usize, Option<usize>) {
        self.it.size_hint()
    }
}
impl<'a, K, V, A: Slots<(K, V)>> ExactSizeIterator for Keys<'a, K, V, A> {}
impl<'a, K, V, A: Slots<(K, V)>> Clone for Keys<'a, K, V, A> {
    fn clone(&self) -> Self {
        Keys { it: self.it.clone() }
    }
}
pub struct Values<'a, K, V, A: Slots<(K, V)> = Inline<(K, V)>> {
    it: SlotIter<'a, (K, V), A>,
}
impl<'a, K, V, A: Slots<(K, V)>> Iterator for Values<'a, K, V, A> {
    type Item = &'a V;
    fn next(&mut self) -> Option<Self::Item> {
        self.it.next().map(|kv| &kv.1)
    }
    fn size_hint(&self) -> (usize, Option<usize>) {
        self.it.size_hint()
    }
}
impl<'a, K, V, A: Slots<(K, V)>> ExactSizeIterator for Values<'a, K, V, A> {}
impl<'a, K, V, A: Slots<(K, V)>> Clone for Values<'a, K, V, A> {
    fn clone(&self) -> Self {
        Values { it: self.it.clone() }
    }
}

impl<K, V, A: Slots<(K, V)>> Default for HashMap<K, V, A> {
    fn default() -> Self {
        HashMap::new()
    }
}
impl<K: fmt::Debug, V: fmt::Debug, A: Slots<(K, V)>> fmt::Debug for HashMap<K, V, A> {
    fn fmt(&self, f: &mut fmt::Formatter<'_>) -> fmt::Result {
        f.debug_map().entries(self.s.iter().map(|kv| (&kv.0, &kv.1))).finish()
    }
}
impl<K: Eq + Hash, V: PartialEq, A: Slots<(K, V)>> PartialEq for HashMap<K, V, A> {
    fn eq(&self, o: &Self) -> bool {
        if self.len() != o.len() {
            return false;
        }
        self.s.iter().all(|(k, v)| o.get(k).map_or(false, |w| *v == *w))
    }
}
impl<K: Eq + Hash, V: Eq, A: Slots<(K, V)>> Eq for HashMap<K, V, A> {}
impl<K: Eq + Hash, V, A: Slots<(K, V)>> FromIterator<(K, V)> for HashMap<K, V, A> {
    fn from_iter<I: IntoIterator<Item = (K, V)>>(it: I) -> Self {
        let mut m = HashMap::new();
        for (k, v) in it {
            m.insert(k, v);
        }
        m
    }
}
impl<K: Eq + Hash, V, A: Slots<(K, V)>> Extend<(K, V)> for HashMap<K, V, A> {
    fn extend<I: IntoIterator<Item = (K, V)>>(&mut self, it: I) {
        for (k, v) in it {
            self.insert(k, v);
        }
    }
}
impl<'a, K: Eq + Hash + Copy, V: Copy, A: Slots<(K, V)>> Extend<(&'a K, &'a V)> for HashMap<K, V, A> {
    fn extend<I: IntoIterator<Item = (&'a K, &'a V)>>(&mut self, it: I) {
        for (k, v) in it {
            self.insert(*k, *v);
        }
    }
}
impl<K: Eq + Hash, V, A: Slots<(K, V)>, const N: usize> From<[(K, V); N]> for HashMap<K, V, A> {
    fn from(a: [(K, V); N]) -> Self {
        a.into_iter().collect()
    }
}
impl<K, V, A: Slots<(K, V)>> IntoIterator for HashMap<K, V, A> {
    type Item = (K, V);
    type IntoIter = std::vec::IntoIter<(K, V)>;
    fn into_iter(self) -> Self::IntoIter {
        self.s.into_vec().into_iter()
    }
}
impl<'a, K, V, A: Slots<(K, V)>> IntoIterator for &'a HashMap<K, V, A> {
    type Item = (&'a K, &'a V);
    type IntoIter = Iter<'a, K, V, A>;
    fn into_iter(self) -> Self::IntoIter {
        self.iter()
    }
}
impl<'a, K, V, A: Slots<(K, V)>> IntoIterator for &'a mut HashMap<K, V, A> {
    type Item = (&'a K, &'a mut V);
    type IntoIter = std::vec::IntoIter<(&'a K, &'a mut V)>;
    fn into_iter(self) -> Self::IntoIter {
        let v: Vec<(&'a K, &'a mut V)> = self.s.iter_mut().map(|kv| (&kv.0, &mut kv.1)).collect();
        v.into_iter()
    }
}
impl<K: Eq + Hash + Borrow<Q>, Q: ?Sized + Eq + Hash, V, A: Slots<(K, V)>> std::ops::Index<&Q> for HashMap<K, V, A> {
    type Output = V;
    fn index(&self, k: &Q) -> &V {
        self.get(k).expect("no entry found for key")
    }
}

impl<K: serde::Serialize, V: serde::Serialize, A: Slots<(K, V)>> serde::Serialize for HashMap<K, V, A> {
    fn serialize<S: serde::Serializer>(&self, s: S) -> Result<S::Ok, S::Error> {
        s.collect_map(self.s.iter().map(|kv| (&kv.0, &kv.1)))
    }
}
impl<'de, K: serde::Deserialize<'de> + Eq + Hash, V: serde::Deserialize<'de>, A: Slots<(K, V)>> serde::Deserialize<'de>
    for HashMap<K, V, A>
{
    fn deserialize<D: serde::Deserializer<'de>>(d: D) -> Result<Self, D::Error> {
        struct Vis<K, V, A>(std::marker::PhantomData<(K, V, A)>);
        impl<'de, K: serde::Deserialize<'de> + Eq + Hash, V: serde::Deserialize<'de>, A: Slots<(K, V)>>
            serde::de::Visitor<'de> for Vis<K, V, A>
        {
            type Value = HashMap<K, V, A>;
            fn expecting(&self, f: &mut fmt::Formatter) -> fmt::Result {
                f.write_str("a map")
            }
            fn visit_map<M: serde::de::MapAccess<'de>>(self, mut a: M) -> Result<Self::Value, M::Error> {
                let mut m = HashMap::new();
                while let Some((k, v)) = a.next_entry()? {
                    m.insert(k, v);
                }
                Ok(m)
            }
        }
        d.deserialize_map(Vis(std::marker::PhantomData))
    }
}

// --------------------------------------------------------------------------
// HashSet
// --------------------------------------------------------------------------

pub struct HashSet<T> {
    s: Store<T>,
}

impl<T> HashSet<T> {
    #[inline]
    pub fn new() -> Self {
        HashSet { s: Store::new() }
    }
    #[inline]
    pub fn with_capacity(_n: usize) -> Self {
        HashSet { s: Store::new() }
    }
    #[inline]
    pub fn len(&self) -> usize {
        self.s.live()
    }
    #[inline]
    pub fn is_empty(&self) -> bool {
        self.s.live() == 0
    }
    #[inline]
    pub fn clear(&mut self) {
        self.s.clear()
    }
    pub fn iter(&self) -> SlotIter<'_, T> {
        self.s.iter()
    }
    pub fn drain(&mut self) -> std::vec::IntoIter<T> {
        let s = std::mem::replace(&mut self.s, Store::new());
        s.into_vec().into_iter()
    }
    pub fn retain<F: FnMut(&T) -> bool>(&mut self, mut f: F) {
        let mut i = 0;
        while i < self.s.hw() {
            let keep = match self.s.slot(i) {
                Some(t) => f(t),
                None => true,
            };
            if !keep {
                self.s.take(i);
            }
            i += 1;
        }
    }
}

impl<T: Eq + Hash> HashSet<T> {
    #[inline]
    fn pos<Q: ?Sized>(&self, k: &Q) -> Option<usize>
    where
        T: Borrow<Q>,
        Q: Eq + Hash,
    {
        let mut i = 0;
        while i < self.s.hw() {
            if let Some(t) = self.s.slot(i) {
                if t.borrow() == k {
                    return Some(i);
                }
            }
            i += 1;
        }
        None
    }
    pub fn insert(&mut self, t: T) -> bool {
        if self.pos(&t).is_some() {
            false
        } else {
            self.s.push(t);
            true
        }
    }
    pub fn replace(&mut self, t: T) -> Option<T> {
        match self.pos(&t) {
            Some(i) => Some(std::mem::replace(self.s.slot_mut(i).unwrap(), t)),
            None => {
                self.s.push(t);
                None
            }
        }
    }
    pub fn contains<Q: ?Sized>(&self, k: &Q) -> bool
    where
        T: Borrow<Q>,
        Q: Eq + Hash,
    {
        self.pos(k).is_some()
    }
    pub fn get<Q: ?Sized>(&self, k: &Q) -> Option<&T>
    where
        T: Borrow<Q>,
        Q: Eq + Hash,
    {
        match self.pos(k) {
            Some(i) => self.s.slot(i),
            None => None,
        }
    }
    pub fn remove<Q: ?Sized>(&mut self, k: &Q) -> bool
    where
        T: Borrow<Q>,
        Q: Eq + Hash,
    {
        match self.pos(k) {
            Some(i) => self.s.take(i).is_some(),
            None => false,
        }
    }
    pub fn take<Q: ?Sized>(&mut self, k: &Q) -> Option<T>
    where
        T: Borrow<Q>,
        Q: Eq + Hash,
    {
        match self.pos(k) {
            Some(i) => self.s.take(i),
            None => None,
        }
    }
    pub fn is_subset(&self, o: &HashSet<T>) -> bool {
        self.s.iter().all(|t| o.contains(t))
    }
    pub fn is_superset(&self, o: &HashSet<T>) -> bool {
        o.is_subset(self)
    }
    pub fn is_disjoint(&self, o: &HashSet<T>) -> bool {
        !self.s.iter().any(|t| o.contains(t))
    }
    pub fn difference<'a>(&'a self, o: &'a HashSet<T>) -> impl Iterator<Item = &'a T> + 'a {
        self.s.iter().filter(move |t| !o.contains(*t))
    }
    pub fn intersection<'a>(&'a self, o: &'a HashSet<T>) -> impl Iterator<Item = &'a T> + 'a {
        self.s.iter().filter(move |t| o.contains(*t))
    }
    pub fn union<'a>(&'a self, o: &'a HashSet<T>) -> impl Iterator<Item = &'a T> + 'a {
        self.s.iter().chain(o.s.iter().filter(move |t| !self.contains(*t)))
    }
}

impl<T: Clone> Clone for HashSet<T> {
    fn clone(&self) -> Self {
        HashSet { s: self.s.clone() }
    }
}
impl<T> Default for HashSet<T> {
    fn default() -> Self {
        HashSet::new()
    }
}
impl<T: fmt::Debug> fmt::Debug for HashSet<T> {
    fn fmt(&self, f: &mut fmt::Formatter<'_>) -> fmt::Result {
        f.debug_set().entries(self.s.iter()).finish()
    }
}
impl<T: Eq + Hash> PartialEq for HashSet<T> {
    fn eq(&self, o: &Self) -> bool {
        self.len() == o.len() && self.is_subset(o)
    }
}
impl<T: Eq + Hash> Eq for HashSet<T> {}
impl<T: Eq + Hash> FromIterator<T> for HashSet<T> {
    fn from_iter<I: IntoIterator<Item = T>>(it: I) -> Self {
        let mut s = HashSet::new();
        for t in it {
            s.insert(t);
        }
        s
    }
}
impl<T: Eq + Hash> Extend<T> for HashSet<T> {
    fn extend<I: IntoIterator<Item = T>>(&mut self, it: I) {
        for t in it {
            self.insert(t);
        }
    }
}
impl<'a, T: Eq + Hash + Copy + 'a> Extend<&'a T> for HashSet<T> {
    fn extend<I: IntoIterator<Item = &'a T>>(&mut self, it: I) {
        for t in it {
            self.insert(*t);
        }
    }
}
impl<T: Eq + Hash, const N: usize> From<[T; N]> for HashSet<T> {
    fn from(a: [T; N]) -> Self {
        a.into_iter().collect()
    }
}
impl<T> IntoIterator for HashSet<T> {
    type Item = T;
    type IntoIter = std::vec::IntoIter<T>;
    fn into_iter(self) -> Self::IntoIter {
        self.s.into_vec().into_iter()
    }
}
impl<'a, T> IntoIterator for &'a HashSet<T> {
    type Item = &'a T;
    type IntoIter = SlotIter<'a, T>;
    fn into_iter(self) -> Self::IntoIter {
        self.s.iter()
    }
}
impl<T: serde::Serialize> serde::Serialize for HashSet<T> {
    fn serialize<S: serde::Serializer>(&self, s: S) -> Result<S::Ok, S::Error> {
        s.collect_seq(self.s.iter())
    }
}
impl<'de, T: serde::Deserialize<'de> + Eq + Hash> serde::Deserialize<'de> for HashSet<T> {
    fn deserialize<D: serde::Deserializer<'de>>(d: D) -> Result<Self, D::Error> {
        let v: Vec<T> = Vec::deserialize(d)?;
        Ok(v.into_iter().collect())
    }
}

/// `std::collections::hash_map` paths used by the units (`RandomState` only).
pub mod hash_map {
    pub use super::{Entry, HashMap, Iter, Keys, Values};
    pub use std::collections::hash_map::{DefaultHasher, RandomState};
}
pub mod hash_set {
    pub use super::HashSet;
}
