//! Stubs shared by all Kani harnesses (DESIGN.md 3.3). Only compiled under cfg(kani).
//!
//! * `instant_now` / `system_time_now`: `clock_gettime` is an unsupported foreign
//!   call in Kani. The stub clock returns *strictly increasing* instants
//!   (tick is a harness-controlled global); strictness is an assumption of every
//!   harness that orders things by creation time.
//! * `fmt_format`: `alloc::fmt::format` builds error/log text only in the units
//!   where it is stubbed; the harness list in bin/checks says where it is applied.

use std::time::{Duration, Instant, SystemTime};

#[repr(C)]
#[derive(Clone, Copy)]
struct RawTimespec {
    secs: i64,
    nanos: u32,
    _pad: u32,
}

static mut TICK: u64 = 0;
/// Step added before every clock read; harnesses may set it to a symbolic value ≥ 1.
pub static mut STEP: u64 = 1;
/// Millisecond wall-clock value returned by `system_time_now` (harness controlled).
pub static mut WALL_MS: u64 = 1_000_000;

pub fn set_tick(t: u64) {
    unsafe { TICK = t }
}
pub fn tick() -> u64 {
    unsafe { TICK }
}

pub fn instant_from(secs: i64) -> Instant {
    let raw = RawTimespec { secs, nanos: 0, _pad: 0 };
    unsafe { std::mem::transmute::<RawTimespec, Instant>(raw) }
}

pub fn instant_now() -> Instant {
    unsafe {
        TICK += STEP;
        instant_from(TICK as i64)
    }
}

pub fn system_time_now() -> SystemTime {
    unsafe { SystemTime::UNIX_EPOCH + Duration::from_millis(WALL_MS) }
}

pub fn fmt_format(_args: std::fmt::Arguments<'_>) -> String {
    String::new()
}
