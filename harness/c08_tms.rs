//! C08 — truth maintenance keeps exactly the supported facts.
//! Child module of the real `src/rete/tms.rs` (attached by bin/extract.py), so it
//! drives the real `TruthMaintenanceSystem` and may read its private sets.
//!
//! One Kani query per harness covers *every* history of `K` operations over at
//! most `N` handles drawn from
//!   0 explicit insert of a fresh handle
//!   1 logical insert of a fresh handle, premises = any non-empty set of live handles
//!   2 extra logical justification for a live handle, premises = any non-empty set of live handles
//!   3 retract of a live handle (explicit or derived)
//! against an independent reference model (bit masks + fixpoint).

use super::*;
use crate::vstubs;

const MAXJ: usize = 8;

struct Model<const N: usize> {
    n: usize,             // handles 1..=n have been inserted
    explicit: [bool; 8],  // has an explicit justification
    logical: [bool; 8],   // has at least one logical justification
    present: u8,          // bit h set <=> handle h is live
    user_retracted: u8,   // retracted by a direct call
    jf: [u8; MAXJ],       // justification -> fact
    jp: [u8; MAXJ],       // justification -> premise mask
    nj: usize,
}

impl<const N: usize> Model<N> {
    fn new() -> Self {
        Model {
            n: 0,
            explicit: [false; 8],
            logical: [false; 8],
            present: 0,
            user_retracted: 0,
            jf: [0; MAXJ],
            jp: [0; MAXJ],
            nj: 0,
        }
    }
    fn supported(&self, h: usize) -> bool {
        if self.explicit[h] {
            return true;
        }
        let mut j = 0;
        while j < self.nj {
            if self.jf[j] as usize == h && (self.jp[j] & !self.present) == 0 {
                return true;
            }
            j += 1;
        }
        false
    }
    /// retract `h`, then drop unsupported facts until nothing changes; returns the dropped set
    fn retract(&mut self, h: usize) -> u8 {
        let before = self.present;
        self.present &= !(1u8 << h);
        self.user_retracted |= 1u8 << h;
        let mut round = 0;
        while round < N {
            let mut x = 1;
            while x <= N {
                if (self.present >> x) & 1 == 1 && !self.supported(x) {
                    self.present &= !(1u8 << x);
                }
                x += 1;
            }
            round += 1;
        }
        before & !self.present & !(1u8 << h)
    }
}

fn premises_from_mask<const N: usize>(mask: u8) -> Vec<FactHandle> {
    let mut v = Vec::new();
    let mut x = 1;
    while x <= N {
        if (mask >> x) & 1 == 1 {
            v.push(FactHandle::new(x as u64));
        }
        x += 1;
    }
    v
}

fn run<const N: usize, const K: usize>(witness: bool) {
    let mut tms = TruthMaintenanceSystem::new();
    let mut m: Model<N> = Model::new();
    let mut impl_present: u8 = 0; // what an engine applying the returned cascades would hold
    let mut saw_cascade2 = false;
    let mut saw_second_just_survivor = false;
    let mut saw_derived_retract = false;

    let mut step = 0;
    while step < K {
        let op: u8 = kani::any();
        kani::assume(op < 4);
        match op {
            0 => {
                kani::assume(m.n < N);
                m.n += 1;
                let h = m.n;
                tms.add_explicit_justification(FactHandle::new(h as u64));
                m.explicit[h] = true;
                m.present |= 1 << h;
                impl_present |= 1 << h;
            }
            1 => {
                kani::assume(m.n < N && m.nj < MAXJ);
                let mask: u8 = kani::any();
                kani::assume(mask != 0 && (mask & !m.present) == 0);
                m.n += 1;
                let h = m.n;
                tms.add_logical_justification(
                    FactHandle::new(h as u64),
                    String::new(),
                    premises_from_mask::<N>(mask),
                );
                m.logical[h] = true;
                m.jf[m.nj] = h as u8;
                m.jp[m.nj] = mask;
                m.nj += 1;
                m.present |= 1 << h;
                impl_present |= 1 << h;
            }
            2 => {
                kani::assume(m.nj < MAXJ);
                let h: usize = kani::any();
                kani::assume(h >= 1 && h <= m.n && (m.present >> h) & 1 == 1);
                let mask: u8 = kani::any();
                kani::assume(mask != 0 && (mask & !m.present) == 0 && (mask >> h) & 1 == 0);
                tms.add_logical_justification(
                    FactHandle::new(h as u64),
                    String::new(),
                    premises_from_mask::<N>(mask),
                );
                m.logical[h] = true;
                m.jf[m.nj] = h as u8;
                m.jp[m.nj] = mask;
                m.nj += 1;
            }
            _ => {
                let h: usize = kani::any();
                kani::assume(h >= 1 && h <= m.n && (m.present >> h) & 1 == 1);
                if !m.explicit[h] {
                    saw_derived_retract = true;
                }
                let had_dependents_alive = m.present;
                let got = tms.retract_with_cascade(FactHandle::new(h as u64));
                let want = m.retract(h);
                // (i) the returned cascade is exactly the set that lost support: no more,
                // no fewer, no duplicates, never the retracted handle itself
                let mut got_mask: u8 = 0;
                let mut i = 0;
                while i < got.len() {
                    let id = got[i].id();
                    assert!(id >= 1 && id <= N as u64, "C08: cascade returned an unknown handle");
                    let bit = 1u8 << (id as u8);
                    assert!(got_mask & bit == 0, "C08: cascade returned a handle twice");
                    got_mask |= bit;
                    i += 1;
                }
                assert!(got_mask == want, "C08: cascade differs from the facts that lost support");
                impl_present &= !(1u8 << h);
                impl_present &= !got_mask;
                if want.count_ones() >= 2 {
                    saw_cascade2 = true;
                }
                // a fact that depended on h but survives on another justification
                let mut x = 1;
                while x <= N {
                    if (m.present >> x) & 1 == 1 && !m.explicit[x] {
                        let mut j = 0;
                        while j < m.nj {
                            if m.jf[j] as usize == x && (m.jp[j] >> h) & 1 == 1 {
                                saw_second_just_survivor = true;
                            }
                            j += 1;
                        }
                    }
                    x += 1;
                }
                let _ = had_dependents_alive;
            }
        }

        // invariants after every operation
        assert!(impl_present == m.present, "C08: live set differs from the reference");
        let mut x = 1;
        while x <= N {
            let hx = FactHandle::new(x as u64);
            let live = (m.present >> x) & 1 == 1;
            let inserted = x <= m.n;
            // (iv) classification agrees with the model
            assert!(tms.is_explicit(hx) == (live && m.explicit[x]), "C08: is_explicit wrong");
            assert!(tms.is_logical(hx) == (live && m.logical[x]), "C08: is_logical wrong");
            // internal view of the real structure
            assert!(tms.retracted_facts.contains(&hx) == (inserted && !live), "C08: retracted set wrong");
            // (ii) live => supported ; dropped by cascade => unsupported
            if live {
                assert!(tms.has_valid_justification(hx), "C08: live fact without support");
                // (iii) explicit facts only leave by explicit retraction (they are live here)
            } else if inserted && (m.user_retracted >> x) & 1 == 0 {
                assert!(!m.explicit[x], "C08: explicit fact removed by a cascade");
                assert!(!tms.has_valid_justification(hx), "C08: supported fact was cascaded away");
            }
            x += 1;
        }
        step += 1;
    }

    kani::cover!(saw_cascade2, "cascade of length >= 2");
    kani::cover!(saw_second_just_survivor, "fact survives on a second justification");
    kani::cover!(saw_derived_retract, "derived fact retracted directly");
    if witness {
        assert!(false, "C08 witness: end of harness reached");
    }
    std::mem::forget(tms);
}

#[kani::proof]
#[kani::stub(std::time::Instant::now, vstubs::instant_now)]
#[kani::unwind(10)]
fn c08_tms_quick() {
    run::<4, 5>(false);
}

#[kani::proof]
#[kani::stub(std::time::Instant::now, vstubs::instant_now)]
#[kani::unwind(10)]
fn c08_tms_quick_witness() {
    run::<4, 5>(true);
}

#[kani::proof]
#[kani::stub(std::time::Instant::now, vstubs::instant_now)]
#[kani::unwind(10)]
fn c08_tms_deep() {
    run::<5, 6>(false);
}
